"""C08 - COUNT, VariantNames, VariantArray and EnumIter describe the same variant list.

sym: index i: usize.  COUNT == iter().len() == number of enabled variants; VariantNames::VARIANTS and
VariantArray::VARIANTS have one entry per DECLARED variant; VariantArray::VARIANTS[i] is declared variant i
(checked through the compiler's own discriminant cast), VariantNames::VARIANTS[i] is its canonical name, and
with no disabled variant both equal the i-th iterated value / its name."""
import copy
from gen import *
from framework import Harness, Program


def U(ident, **kw):
    return Variant(ident=ident, **kw)


def pivot():
    S = []
    S.append(EnumSpec("Plain", [U("A"), U("B"), U("C")], note="3 variants"))
    S.append(EnumSpec("Zero", [], note="0 variants"))
    S.append(EnumSpec("One", [U("Only")], repr="u8", note="1 variant (repr(u8): Kani 0.68 ICEs on constant slices of zero-sized enums)"))
    S.append(EnumSpec("Disc", [U("A", disc="10", disc_val=10), U("B"), U("C", disc="3", disc_val=3), U("D")], repr="u8",
                      note="explicit discriminants, descending jump"))
    S.append(EnumSpec("Named", [U("DarkRed", serialize=["dr", "dark-red"]), U("Blue", to_string="blu"), U("GreenIsh")],
                      serialize_all="snake_case", prefix="c_", note="naming attributes, serialize_all, prefix"))
    S.append(EnumSpec("DisMid", [U("A"), U("H", disabled=True), U("B"), U("C")], note="disabled in the middle"))
    S.append(EnumSpec("DisFirstLast", [U("H1", disabled=True), U("A"), U("B"), U("H2", disabled=True)], note="disabled first and last"))
    S.append(EnumSpec("DisAdj", [U("A"), U("H1", disabled=True), U("H2", disabled=True), U("B")], note="adjacent disabled"))
    S.append(EnumSpec("DisAttr", [
        U("A"), U("H1", disabled=True, message="m", serialize=["h1"]), U("B", serialize=["bee"], message="mb"),
        U("H2", disabled=True, message="m2", flags_last=True), U("C"), U("H3", disabled=True, attr_style="trailing"),
        U("H4", disabled=True, serialize=["x", "yy"], attr_style="split"), U("D"),
    ], note="`disabled` combined with other items in one attribute (before / after them), trailing comma, split attributes"))
    S.append(EnumSpec("SameName", [U("Kb"), U("KB"), U("Warn"), U("Warning", to_string="warn")], serialize_all="lowercase",
                      note="two variants whose canonical names coincide (VariantNames only describes, it must still list every declared variant)"))
    S.append(EnumSpec("Big257", [U("V%d" % i) for i in range(257)], serialize_all="snake_case", note="257 variants (8-bit boundary)"))
    S.append(EnumSpec("Eight", [U("V%d" % i) for i in range(8)], serialize_all="kebab-case", note="8 variants"))
    return S


def random_specs(rng, n):
    out = []
    for k in range(n):
        nv = rng.randint(0, 8)
        vs = []
        for i, ident in enumerate(rand_idents(rng, nv)):
            v = Variant(ident=ident, disabled=rng.random() < 0.25)
            if rng.random() < 0.3:
                v.serialize = ["s%d" % i, "ser%d_x" % i][: rng.randint(1, 2)]
            vs.append(v)
        out.append(decorate(rng, EnumSpec("R%d" % k, vs, serialize_all=rng.choice([None] + casing.ALL_STYLE_STRINGS), role="random", note="random")))
    return out


def program(spec: EnumSpec, pname, tier):
    spec = copy.deepcopy(spec)
    spec.derives = ["EnumCount", "EnumIter", "VariantNames", "VariantArray", "AsRefStr"]
    spec.std_derives = ["Debug", "Clone", "Copy", "PartialEq"]
    if len(spec.variants) == 1 and not spec.repr:
        spec.repr = "u8"      # Kani 0.68 ICEs on a constant slice of a zero-sized (single-variant) enum
    E = spec.ty()
    nd_ = len(spec.variants)
    en = [i for i, v in enumerate(spec.variants) if not v.disabled]
    ne = len(en)
    names = [canonical(spec, v) for v in spec.variants]
    src = render_enum(spec) + "\n"
    helper = bytes_table_fn("canon_decl", names) + "\n"
    # compiler-cast table of the declared variants
    helper += "pub fn disc_of_decl(i: usize) -> isize { match i { %s _ => isize::MIN } }\n" % " ".join(
        "%d => %s::%s as isize," % (i, spec.name, v.ident) for i, v in enumerate(spec.variants))
    helper += "pub fn decl_of_enabled(j: usize) -> usize { match j { %s _ => usize::MAX } }\n" % " ".join("%d => %d," % (j, i) for j, i in enumerate(en))
    body = """    use strum::{EnumCount, IntoEnumIterator, VariantNames, VariantArray};
    assert!(<%(E)s as EnumCount>::COUNT == %(ne)d, "COUNT is not the number of enabled variants");
    assert!(<%(E)s as IntoEnumIterator>::iter().len() == <%(E)s as EnumCount>::COUNT, "iter().len() != COUNT");
    let names: &'static [&'static str] = <%(E)s as VariantNames>::VARIANTS;
    let vals: &'static [%(E)s] = <%(E)s as VariantArray>::VARIANTS;
    assert!(names.len() == %(nd)d && vals.len() == %(nd)d, "VARIANTS tables do not have one entry per declared variant");
    let i = nd_usize();
    let item = <%(E)s as IntoEnumIterator>::iter().nth(i);
    vcover!(i == %(nd)d, "index one past the declared variants");
    if i < %(nd)d {
        vcover!(i + 1 == %(nd)d, "last declared variant");
        assert!(vals[i] as isize == disc_of_decl(i), "VariantArray::VARIANTS[i] is not declared variant i");
        assert!(beq(names[i].as_bytes(), canon_decl(i)), "VariantNames::VARIANTS[i] is not the canonical name of declared variant i");
    }
    if i < %(ne)d {
        let d = decl_of_enabled(i);
        match item {
            Some(v) => {
                assert!(v as isize == disc_of_decl(d), "the i-th iterated value is not the i-th enabled variant");
                assert!(v as isize == vals[d] as isize, "iterated value and VariantArray entry differ");
                assert!(beq(AsRef::<str>::as_ref(&v).as_bytes(), names[d].as_bytes()), "VariantNames entry is not the iterated value's name");
            }
            None => { assert!(false, "iterator ended before COUNT items"); }
        }
    } else {
        assert!(item.is_none(), "iterator yields more than COUNT items");
    }
""" % {"E": E, "nd": nd_, "ne": ne}
    ncov = 2
    if nd_ == 0:
        # Kani 0.68 ICEs (division by zero in codegen_const_ptr) on a constant slice of a zero-sized / uninhabited
        # enum, so the VariantArray table of the 0-variant enum is not referenced (tool limit, stated in evidence)
        body = """    use strum::{EnumCount, IntoEnumIterator, VariantNames};
    assert!(<%(E)s as EnumCount>::COUNT == 0, "COUNT is not the number of enabled variants");
    assert!(<%(E)s as IntoEnumIterator>::iter().len() == 0, "iter().len() != COUNT");
    assert!(<%(E)s as VariantNames>::VARIANTS.len() == 0, "VARIANTS is not empty");
    let i = nd_usize();
    vcover!(i == usize::MAX, "largest index");
    assert!(<%(E)s as IntoEnumIterator>::iter().nth(i).is_none(), "iterator over an empty enum yields an item");
""" % {"E": E}
        ncov = 1
    fns = ["<%s as EnumCount>::COUNT" % spec.name, "<%s as VariantNames>::VARIANTS" % spec.name, "<%s as VariantArray>::VARIANTS" % spec.name,
           "%sIter::nth" % spec.name, "<%s as AsRef<str>>::as_ref" % spec.name]
    hs = [Harness(name="h_same_list", body=body, unwind=40, kind="symbolic",
                  desc="COUNT / iter().len() / VARIANTS lengths, and for every index i: usize: VariantArray[i], VariantNames[i], iter().nth(i) refer to the same variant",
                  bound={"i": "all of usize"}, min_covers=ncov, functions=fns)]
    return Program(name=pname, enum_src=src, helper_src=helper, harnesses=hs, summary=render_enum(spec), role=spec.role, note=spec.note)


def build(tier, seed):
    rng = mk_rng(seed, "C08")
    specs = pivot() + random_specs(rng, 3 if tier == "quick" else 20)
    programs = [program(s, "p%03d" % i, tier) for i, s in enumerate(specs)]
    # generics: VariantNames / EnumCount / EnumIter on a generic data-carrying enum (VariantArray needs field-less)
    gsrc = """#[derive(Debug, Clone, PartialEq, strum::EnumCount, strum::EnumIter, strum::VariantNames)]
#[strum(serialize_all = "UPPERCASE")]
pub enum G<T: Default + Clone + PartialEq + core::fmt::Debug, const K: usize> { A(T), #[strum(disabled)] H, B { x: Wrap<K> }, C }
#[derive(Debug, Clone, PartialEq, strum::EnumCount, strum::EnumIter, strum::VariantNames)]
pub enum WithDefault { First, #[strum(default)] Other(String), #[strum(serialize = "l", serialize = "last")] Last }
#[derive(Debug, Clone, PartialEq, Default)]
pub struct Wrap<const K: usize>;
"""
    gbody = """    use strum::{EnumCount, IntoEnumIterator, VariantNames};
    type GG = G<u16, 2>;
    assert!(<GG as EnumCount>::COUNT == 3);
    assert!(<GG as IntoEnumIterator>::iter().len() == 3);
    let names = <GG as VariantNames>::VARIANTS;
    assert!(names.len() == 4);
    let i = nd_usize();
    vassume(i < 4);
    vcover!(i == 3, "last");
    let exp: &[u8] = match i { 0 => b"A", 1 => b"H", 2 => b"B", _ => b"C" };
    assert!(beq(names[i].as_bytes(), exp));
    // a default (catch-all) variant is a declared variant like any other for COUNT / iter / VariantNames
    assert!(<WithDefault as EnumCount>::COUNT == 3 && <WithDefault as IntoEnumIterator>::iter().len() == 3);
    let wn = <WithDefault as VariantNames>::VARIANTS;
    assert!(wn.len() == 3 && beq(wn[0].as_bytes(), b"First") && beq(wn[1].as_bytes(), b"Other") && beq(wn[2].as_bytes(), b"last"),
            "VariantNames does not list every declared variant (default variant)");
    let it = <GG as IntoEnumIterator>::iter().nth(i);
    match (i, it) {
        (0, Some(G::A(t))) => assert!(t == 0),
        (1, Some(G::B { x })) => assert!(x == Wrap::<2>),
        (2, Some(G::C)) => {}
        (3, None) => {}
        _ => assert!(false, "generic enum: iterator and declared list disagree"),
    }
"""
    programs.append(Program(name="pgen", enum_src=gsrc, harnesses=[
        Harness(name="h_generic_lists", body=gbody, unwind=12, kind="symbolic",
                desc="type- and const-generic data-carrying enum with a disabled variant: COUNT, iter, VariantNames agree",
                bound={"i": "0..4"}, min_covers=1, functions=["<G as EnumCount>::COUNT", "GIter::nth", "<G as VariantNames>::VARIANTS"])],
        summary=gsrc, note="generics (VariantNames / COUNT / iter only)"))
    return {
        "programs": programs,
        "harness_timeout": 300 if tier == "quick" else 1200,
        "bounds": {"i": "every usize", "variants": "0..8"},
        "assumptions": ["program dimension enumerated (field-less enums; one generic data-carrying enum for the non-VariantArray part)",
                        "declared-variant identity is read through the compiler's `as isize` cast"],
        "outside": ["enums outside the corpus"],
    }
