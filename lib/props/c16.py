"""C16 - use_phf is a pure optimisation of EnumString.

Every field-less Clone EnumString spec is emitted twice: P (plain) and Q (same + use_phf).
 * build half: Q must compile whenever P does (a rustc error on Q is the witness);
 * differential: for every valid UTF-8 s of <= N bytes P::from_str(s) and Q::from_str(s) agree
   (variant, default payload, error value).  The real phf lookup (SipHash-1-3, displacement
   table) is executed symbolically.  Q is also compared with the reference parser."""
import copy
from strgen import *


def U(ident, **kw):
    return Variant(ident=ident, **kw)


def pivot():
    d = ["EnumString"]
    std = ["Debug", "Clone", "PartialEq"]
    S = []
    S.append(EnumSpec("Mixed", [U("Red"), U("DarkBlue", serialize=["db", "DarkBlue"]), U("Green", to_string="grn")], derives=d,
                      std_derives=std, note="mixed-case spellings, case-sensitive"))
    S.append(EnumSpec("CiMixed", [U("Red"), U("Blue", aci=False), U("GreenIsh")], derives=d, std_derives=std, aci=True,
                      note="enum-level case-insensitive, mixed-case spellings, one = false override"))
    S.append(EnumSpec("CiLower", [U("A", serialize=["red"]), U("B", serialize=["blue", "azure"])], derives=d, std_derives=std, aci=True,
                      note="case-insensitive with ALL-LOWERCASE spellings (lower == spelling)"))
    S.append(EnumSpec("CiUpper", [U("A", serialize=["RED"], aci=True, aci_bare=True), U("B", serialize=["Blue"])], derives=d,
                      std_derives=std, note="variant-level case-insensitive with an ALL-UPPERCASE spelling (upper == spelling)"))
    S.append(EnumSpec("CiCaseless", [U("One", serialize=["1"]), U("Dash", serialize=["-_-"]), U("Eac", serialize=["éé"]),
                                     U("Ab", serialize=["aB"])],
                      derives=d, std_derives=std, aci=True, note="case-insensitive with caseless spellings (digits, punctuation, non-ASCII)"))
    S.append(EnumSpec("CiEmpty", [U("Nil", serialize=[""]), U("X")], derives=d, std_derives=std, aci=True,
                      note="case-insensitive with the empty spelling"))
    S.append(EnumSpec("Def", [U("Aa"), U("Other", fields=[Field("String")], default=True), U("Bb", aci=True)], derives=d, std_derives=std,
                      note="default variant + one case-insensitive variant"))
    S.append(EnumSpec("Dis", [U("Aa"), U("Hid", disabled=True), U("Cc", serialize=["cc", "c"])], derives=d, std_derives=std,
                      serialize_all="snake_case", note="disabled variant, serialize_all"))
    S.append(EnumSpec("CiTwoCases", [U("Red", serialize=["Red", "red"], aci=True), U("Go", serialize=["GO", "go", "Go"])], derives=d,
                      std_derives=std, aci=True, note="two spellings of one case-insensitive variant that differ only in case"))
    S.append(EnumSpec("MixLower", [U("Alpha", aci=True, aci_bare=True), U("Beta", serialize=["beta"]), U("DarkGreen", serialize=["dark-green"]), U("Gam", serialize=["GAM"])],
                      derives=d, std_derives=std, note="one case-insensitive variant next to case-sensitive variants whose spellings are all-lowercase / all-uppercase"))
    S.append(EnumSpec("ShortTs", [U("Xl", to_string="xl", serialize=["extra-large"]), U("S", to_string="s"), U("Medium", serialize=["m", "medium"])],
                      derives=d, std_derives=std, note="a short to_string next to a much longer serialize alias (the preferred name is NOT the longest spelling)"))
    S.append(EnumSpec("DefCs", [U("Aa"), U("Other", fields=[Field("String")], default=True), U("Bb", serialize=["bb", "b"])], derives=d, std_derives=std,
                      note="default variant with ONLY case-sensitive siblings (no guard arms at all)"))
    S.append(EnumSpec("OnlyCi", [U("K", serialize=["k"], aci=True), U("S1", serialize=["s1"], aci=True)], derives=d, std_derives=std,
                      note="single-letter lowercase case-insensitive spellings (Kelvin sign / long s look-alikes in range)"))
    return S


def random_specs(rng, n):
    out = []
    for k in range(n):
        nv = rng.randint(1, 5)
        ids = rand_idents(rng, nv)
        vs = []
        for i, ident in enumerate(ids):
            v = Variant(ident=ident)
            r = rng.random()
            if r < 0.3:
                v.serialize = [rng.choice(["x%d", "X%d", "y%dZ", "%d", "q-%d"]) % i]
            if rng.random() < 0.2:
                v.disabled = True
            if rng.random() < 0.4:
                v.aci = rng.random() < 0.6
            vs.append(v)
        spec = EnumSpec("R%d" % k, vs, derives=["EnumString"], std_derives=["Debug", "Clone", "PartialEq"],
                        serialize_all=rng.choice([None, "lowercase", "UPPERCASE", "kebab-case", "camelCase"]),
                        aci=rng.random() < 0.5, role="random",
                        note="random (in-domain by construction: P compiles in the same module, so a rejected Q is a violation)")
        seen, ok = {}, True
        for v in spec.variants:
            if v.disabled or v.default:
                continue
            for sp in spellings(spec, v):
                key = fold_ascii(sp)
                if key in seen and seen[key] is not v:
                    ok = False
                seen[key] = v
        if ok and max_spelling_len(spec) <= 9:
            out.append(decorate(rng, spec))
    return out


def twin(spec, suffix, phf):
    t = copy.deepcopy(spec)
    t.name = spec.name + suffix
    t.use_phf = phf
    return t


def lookalikes(spec):
    """witness inputs: Unicode look-alikes and case flips derived from the program's own spellings"""
    subs = {"k": "K", "K": "K", "s": "ſ", "S": "ſ", "i": "ı", "I": "İ"}
    out = []
    for v in enabled(spec):
        if v.default:
            continue
        for sp in spellings(spec, v):
            out.append(sp.swapcase())
            out.append(sp.upper())
            out.append(sp.lower())
            for i, ch in enumerate(sp):
                if ch in subs:
                    out.append(sp[:i] + subs[ch] + sp[i + 1:])
    seen, res = set(), []
    for x in out:
        if x not in seen and x != "":
            seen.add(x)
            res.append(x)
    return res


def program(spec, pname, tier, cap):
    P, Q = twin(spec, "P", False), twin(spec, "Q", True)
    N = n_for(spec, extra=1, cap=cap, floor=4)
    dvp = default_variant(P)
    src_p = render_enum(P) + "\n"
    src_q = render_enum(Q) + "\n"
    helper = variant_index_fn(P, "pidx") + "\n" + variant_index_fn(Q, "qidx") + "\n" + oracle_fn(Q) + "\n"
    if dvp is not None:
        dq = default_variant(Q)
        helper += "pub fn p_inner(e: &%s) -> Option<&str> { match e { %s => Some(inner.as_str()), _ => None } }\n" % (P.ty(), pattern(P, dvp, ["inner"]))
        helper += "pub fn q_inner(e: &%s) -> Option<&str> { match e { %s => Some(inner.as_str()), _ => None } }\n" % (Q.ty(), pattern(Q, dq, ["inner"]))
    else:
        helper += "pub fn p_inner(e: &%s) -> Option<&str> { None }\npub fn q_inner(e: &%s) -> Option<&str> { None }\n" % (P.ty(), Q.ty())
    helper += """pub fn diff(p: &Result<%s, strum::ParseError>, q: &Result<%s, strum::ParseError>, input: &[u8]) {
    match (p, q) {
        (Ok(a), Ok(b)) => {
            assert!(pidx(a) == qidx(b), "use_phf changes which variant an input parses to");
            match (p_inner(a), q_inner(b)) {
                (Some(x), Some(y)) => { assert!(beq(x.as_bytes(), y.as_bytes()) && beq(y.as_bytes(), input), "use_phf changes the default variant's payload"); }
                (None, None) => {}
                _ => { assert!(false, "payload shape differs"); }
            }
        }
        (Err(a), Err(b)) => { assert!(a == b, "use_phf changes the error value"); }
        (Ok(_), Err(_)) => { assert!(false, "use_phf rejects an input the plain parser accepts"); }
        (Err(_), Ok(_)) => { assert!(false, "use_phf accepts an input the plain parser rejects"); }
    }
}
""" % (P.ty(), Q.ty())
    body = """    let ss = SymStr::<%(N)d>::utf8();
    let s = ss.as_str();
    let p = <%(P)s as core::str::FromStr>::from_str(s);
    let q = <%(Q)s as core::str::FromStr>::from_str(s);
    let o = oracle(ss.bytes());
    vcover!(o.is_some(), "input is a spelling");
    vcover!(o.is_none() && ss.len > 0, "input is not a spelling");
    diff(&p, &q, ss.bytes());
    match (&q, o) {
        (Ok(v), Some(i)) => { assert!(qidx(v) == i, "phf-backed parser returns another variant than the reference parser"); }
        (Ok(v), None) => { assert!(q_inner(v).is_some(), "phf-backed parser accepts an input that is no spelling"); }
        (Err(_), Some(_)) => { assert!(false, "phf-backed parser rejects a declared spelling"); }
        (Err(_), None) => {}
    }
""" % {"N": N, "P": P.ty(), "Q": Q.ty()}
    fns = ["<%s as FromStr>::from_str" % P.name, "<%s as FromStr>::from_str (phf)" % Q.name, "phf::Map::get", "phf_shared::hash (SipHash-1-3)"]
    hs = [Harness(name="h_phf_diff_n%d" % N, body=body, unwind=N + 2 if N + 2 > 10 else 10, kind="symbolic",
                  desc="P::from_str(s) == Q::from_str(s) (Q = P + use_phf) and Q vs reference parser, every valid UTF-8 s <= %d bytes" % N,
                  bound={"N_bytes": N, "alphabet": "all valid UTF-8"}, min_covers=2 if any(not v.default for v in enabled(spec)) else 1,
                  functions=fns)]
    if not any((not v.default) and any(len(sp.encode()) <= N for sp in spellings(spec, v)) for v in enabled(spec)):
        hs[0].min_covers = 1
        hs[0].body = hs[0].body.replace('    vcover!(o.is_some(), "input is a spelling");\n', "")
    # witness queries (no free variable): look-alikes and case flips of the program's own spellings
    ws = [w for w in lookalikes(spec) if len(w.encode()) <= 16][: (6 if tier == "quick" else 24)]
    if ws:
        wb = []
        for w in ws:
            wb.append("    { let ss = SymStr::<16>::fixed(%s); let s = ss.as_str();" % rust_bytes(w.encode()))
            wb.append("      let p = <%s as core::str::FromStr>::from_str(s); let q = <%s as core::str::FromStr>::from_str(s);" % (P.ty(), Q.ty()))
            wb.append("      diff(&p, &q, ss.bytes());")
            wb.append("      let o = oracle(ss.bytes());")
            wb.append('      match (&q, o) { (Ok(v), Some(i)) => assert!(qidx(v) == i, "witness: wrong variant"), (Ok(v), None) => assert!(q_inner(v).is_some(), "witness: look-alike accepted"), (Err(_), Some(_)) => assert!(false, "witness: case variant rejected"), (Err(_), None) => {} } }')
        hs.append(Harness(name="h_phf_witness", body="\n".join(wb), unwind=18, kind="witness",
                          desc="fixed inputs (case flips, upper/lower forms, Kelvin-sign/long-s/dotless-i look-alikes of the program's spellings): %s" % ", ".join(repr(w) for w in ws),
                          bound={"inputs": ws}, min_covers=0, functions=fns))
    return Program(name=pname, enum_src=src_p + src_q, helper_src=helper, harnesses=hs, summary=render_enum(Q), role="pivot",
                   note=spec.note + " [Q = P + use_phf must compile whenever P does]")


def build(tier, seed):
    rng = mk_rng(seed, "C16")
    cap = 8 if tier == "quick" else 12
    specs = pivot() + random_specs(rng, 2 if tier == "quick" else 12)
    programs = [program(s, "p%03d" % i, tier, cap) for i, s in enumerate(specs)]
    return {
        "programs": programs,
        "features": ("derive", "phf"),
        "harness_timeout": 600 if tier == "quick" else 2400,
        "bounds": {"N": "longest spelling + 1 bytes (min 4), capped at %d; full UTF-8" % cap},
        "assumptions": [
            "program dimension enumerated: field-less Clone enums of the pivot + random corpus, each built with and without use_phf",
            "the phf map is the one phf_macros generates at build time for the current tree; its lookup is executed symbolically (no stub)",
            "witness harnesses have no free variable and claim nothing beyond the listed inputs",
        ],
        "outside": ["inputs longer than N bytes", "enums outside the corpus"],
    }
