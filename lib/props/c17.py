"""C17 - Display renders fixed names like a str and placeholders like format!.

fixed names : one harness per (variant kind arm, format spec); the name is a compile-time constant, width
              (and precision in thorough) symbolic; differential `write!(a, SPEC, v)` vs `write!(b, SPEC, name)`.
placeholders: payload type Ch whose Display writes ONE symbolic ASCII letter through Formatter::pad (symbolic
              content, concrete rendered length); differential against write! with the same literal.
              The tuple arm expands to format!, whose growing String defeats CBMC; it runs with ONE stub,
              alloc::fmt::format -> format_stub, which runs the real core::fmt::write on the real Arguments into a
              fixed buffer and returns String::from(..): only the allocation strategy is replaced."""
from gen import *
from framework import Harness, Program

FIXED_SRC = """#[derive(Debug, Clone, PartialEq, strum::Display)]
pub enum Fx {
    Unit,
    #[strum(serialize = "tup", serialize = "t")]
    Tup(u8, bool),
    #[strum(to_string = "gr\\u{e9}en")]
    Named { x: u16 },
    #[strum(disabled)]
    Off,
}
#[derive(Debug, Clone, PartialEq, strum::Display)]
#[strum(prefix = "p\\u{e9}:", serialize_all = "kebab-case")]
pub enum Px {
    DarkRed,
    Io2(u8),
    LongName { a: bool },
}
"""

# (name, spec, uses w, uses p)
SPECS_QUICK = [("w", "{:w$}", True, False), ("right", "{:>w$}", True, False), ("center_star", "{:*^w$}", True, False),
               ("uni_fill_prec2", "{:é<w$.2}", True, False), ("prec0", "{:.0}", False, False), ("right_prec9", "{:>w$.9}", True, False)]
SPECS_THOROUGH = SPECS_QUICK + [("left", "{:<w$}", True, False), ("zero_flag", "{:0w$}", True, False), ("prec_len", "{:.4}", False, False),
                                ("sym_prec", "{:w$.p$}", True, True), ("sym_prec_center", "{:-^w$.p$}", True, True),
                                ("alt", "{:#w$}", True, False)]

ARMS = [
    ("fx_unit", "Fx::Unit", "Unit"),
    ("fx_tuple", "Fx::Tup(nd_u8(), nd_bool())", "tup"),
    ("fx_named", "Fx::Named { x: nd_u16() }", "gréen"),
    ("px_unit", "Px::DarkRed", "pé:dark-red"),
    ("px_tuple", "Px::Io2(nd_u8())", "pé:io2"),
    ("px_named", "Px::LongName { a: nd_bool() }", "pé:long-name"),
]


def fixed_program(pname, tier):
    hs = []
    W = 10 if tier == "quick" else 14
    specs = SPECS_QUICK if tier == "quick" else SPECS_THOROUGH
    arms = ARMS if tier != "quick" else ARMS[:4]
    for an, ctor, name in arms:
        for sn, fs, hw, hp in specs:
            args = (", w = w" if hw else "") + (", p = p" if hp else "")
            body = """    let v = %(ctor)s;
    let name: &str = %(name)s;
    let w = nd_usize();
    vassume(w <= %(W)d);
    let p = nd_usize();
    vassume(p <= 8);
    vcover!(w == %(W)d && p == 3, "widest");
    vcover!(w == 0 && p == 0, "no padding");
    let mut a = Buf::<32>::new();
    let mut b = Buf::<32>::new();
    let ra = write!(a, "%(fs)s", v%(args)s);
    let rb = write!(b, "%(fs)s", name%(args)s);
    assert!(ra.is_ok() == rb.is_ok(), "formatting result differs");
    assert!(a.same(&b), "a fixed-name variant is not formatted like the &str of its name (width / fill / alignment / precision)");
""" % {"ctor": ctor, "name": rust_str(name), "fs": fs, "args": args, "W": W}
            hs.append(Harness(name="h_fixed_%s_%s" % (an, sn), body=body, unwind=36, kind="symbolic",
                              desc="%s (name %r) formatted with \"%s\" == the &str formatted with the same spec; width 0..%d%s" % (
                                  ctor.split("(")[0].split(" {")[0], name, fs, W, ", precision 0..8" if hp else ""),
                              bound={"width": "0..%d" % W, "precision": "0..8" if hp else "concrete", "spec": fs}, min_covers=2,
                              functions=["<Fx as Display>::fmt", "<Px as Display>::fmt", "<str as Display>::fmt", "Formatter::pad"]))
    return Program(name=pname, enum_src=FIXED_SRC, harnesses=hs, summary=FIXED_SRC, note="fixed names over the three kind-specific arms, with and without prefix/style")


PH_SRC = """#[derive(Debug, Clone, Copy, PartialEq)]
pub struct Ch(pub u8);
impl core::fmt::Display for Ch {
    fn fmt(&self, f: &mut core::fmt::Formatter) -> core::fmt::Result {
        let b = [b'a' + (self.0 % 26)];
        f.pad(unsafe { core::str::from_utf8_unchecked(&b) })
    }
}
#[derive(Debug, Clone, PartialEq, strum::Display)]
pub enum Ph {
    #[strum(to_string = "a{1}b{0}")]
    T2(Ch, Ch),
    #[strum(to_string = "{0}{0}-{1}")]
    T2rep(Ch, Ch),
    #[strum(to_string = "{{{0}}}")]
    TEsc(Ch),
    #[strum(to_string = "[{0:>4}|{1:*<3}]{2}")]
    TSpec(Ch, Ch, Ch),
    #[strum(to_string = "x{y}z{{}}{w}")]
    N { y: Ch, w: Ch, unused: u8 },
    #[strum(to_string = "{w}{y}{w}")]
    NOrder { y: Ch, w: Ch },
    #[strum(to_string = "<{y:^5}>{{{w:.0}}}")]
    NSpec { y: Ch, w: Ch },
    #[strum(to_string = "text {b}")]
    NTrailing { a: Ch, b: Ch },
    #[strum(to_string = "{c:>4}|{a}")]
    NGap { a: Ch, b: Ch, c: Ch },
    #[strum(to_string = "{x:03}/{y:+}/{z:#x}")]
    NInt { x: u16, y: i64, z: u64 },
    #[strum(to_string = "{0:>8}|{1}")]
    TInt(i64, u64),
    #[strum(to_string = "no placeholder {{}}")]
    Plain(Ch),
    #[strum(to_string = "{{0}} = {0}")]
    TLookalike(Ch),
    #[strum(to_string = "{{1}}{1}{{0{0}}}")]
    TLookalike2(Ch, Ch),
    #[strum(to_string = "{{x}}={x} {{x:>3}}")]
    NLookalike { x: Ch },
}
pub fn format_stub(args: core::fmt::Arguments<'_>) -> alloc::string::String {
    let mut b = Buf::<48>::new();
    let _ = core::fmt::write(&mut b, args);
    let st = unsafe { core::str::from_utf8_unchecked(b.bytes()) };
    alloc::string::String::from(st)
}
"""

# (harness, needs stub, let-bindings, constructor, write! args for the reference side, literal, symbolic?)
PH = [
    ("t2", True, "let (x, y) = (Ch(nd_u8()), Ch(nd_u8()));", "Ph::T2(x, y)", "x, y", "a{1}b{0}", True),
    ("t2rep", True, "let (x, y) = (Ch(nd_u8()), Ch(nd_u8()));", "Ph::T2rep(x, y)", "x, y", "{0}{0}-{1}", True),
    ("tesc", True, "let x = Ch(nd_u8());", "Ph::TEsc(x)", "x", "{{{0}}}", True),
    ("tspec", True, "let (x, y, z) = (Ch(nd_u8()), Ch(nd_u8()), Ch(nd_u8()));", "Ph::TSpec(x, y, z)", "x, y, z", "[{0:>4}|{1:*<3}]{2}", True),
    ("tlookalike", True, "let x = Ch(nd_u8());", "Ph::TLookalike(x)", "x", "{{0}} = {0}", True),
    ("tlookalike2", True, "let (x, y) = (Ch(nd_u8()), Ch(nd_u8()));", "Ph::TLookalike2(x, y)", "x, y", "{{1}}{1}{{0{0}}}", True),
    ("nlookalike", False, "let x = Ch(nd_u8());", "Ph::NLookalike { x }", "x = x", "{{x}}={x} {{x:>3}}", True),
    ("n", False, "let (y, w) = (Ch(nd_u8()), Ch(nd_u8()));", "Ph::N { y, w, unused: nd_u8() }", "y = y, w = w", "x{y}z{{}}{w}", True),
    ("norder", False, "let (y, w) = (Ch(nd_u8()), Ch(nd_u8()));", "Ph::NOrder { y, w }", "y = y, w = w", "{w}{y}{w}", True),
    ("nspec", False, "let (y, w) = (Ch(nd_u8()), Ch(nd_u8()));", "Ph::NSpec { y, w }", "y = y, w = w", "<{y:^5}>{{{w:.0}}}", True),
    ("ntrailing", False, "let (fa, fb) = (Ch(nd_u8()), Ch(nd_u8()));", "Ph::NTrailing { a: fa, b: fb }", "b = fb", "text {b}", True),
    ("ngap", False, "let (fa, fb, fc) = (Ch(nd_u8()), Ch(nd_u8()), Ch(nd_u8()));", "Ph::NGap { a: fa, b: fb, c: fc }", "a = fa, c = fc", "{c:>4}|{a}", True),
    ("nint_extreme", False, "let (x, y, z) = (65535u16, i64::MIN, u64::MAX);", "Ph::NInt { x, y, z }", "x = x, y = y, z = z", "{x:03}/{y:+}/{z:#x}", False),
    ("nint_small", False, "let (x, y, z) = (7u16, 0i64, 0u64);", "Ph::NInt { x, y, z }", "x = x, y = y, z = z", "{x:03}/{y:+}/{z:#x}", False),
    ("tint_extreme", True, "let (x, y) = (i64::MIN, u64::MAX);", "Ph::TInt(x, y)", "x, y", "{0:>8}|{1}", False),
    ("tint_small", True, "let (x, y) = (-5i64, 42u64);", "Ph::TInt(x, y)", "x, y", "{0:>8}|{1}", False),
]


def rand_placeholder_variants(rng, n):
    """random to_string literals over tuple and named variants with Ch payloads: orders, repetitions, subsets (named only:
    format! rejects an unused positional argument), nested width/fill/alignment specs, escaped braces next to placeholders"""
    specs = ["", ":>3", ":<2", ":^4", ":*>3", ":.0", ":.1"]
    texts = ["", "a", " ", "-", "=", "x y", "{{", "}}", "{{}}", "[", "]"]
    out_src, out_h = [], []
    for k in range(n):
        named = rng.random() < 0.5
        nf = rng.randint(1, 3)
        names = ["f%s" % "abc"[i] for i in range(nf)]
        if named:
            used = rng.sample(range(nf), rng.randint(1, nf))
        else:
            used = list(range(nf))
        seq = list(used) + [rng.choice(used) for _ in range(rng.randint(0, 2))]
        rng.shuffle(seq)
        lit = rng.choice(texts)
        for i in seq:
            lit += "{%s%s}" % (names[i] if named else str(i), rng.choice(specs)) + rng.choice(texts)
        ident = "Rnd%d" % k
        binds = "let (%s,) = (%s,);" % (", ".join("v%d" % i for i in range(nf)), ", ".join("Ch(nd_u8())" for _ in range(nf)))
        if named:
            out_src.append('    #[strum(to_string = %s)]\n    %s { %s },' % (rust_str(lit), ident, ", ".join("%s: Ch" % nm for nm in names)))
            ctor = "Ph::%s { %s }" % (ident, ", ".join("%s: v%d" % (nm, i) for i, nm in enumerate(names)))
            rargs = ", ".join("%s = v%d" % (names[i], i) for i in sorted(set(used)))
        else:
            out_src.append('    #[strum(to_string = %s)]\n    %s(%s),' % (rust_str(lit), ident, ", ".join("Ch" for _ in range(nf))))
            ctor = "Ph::%s(%s)" % (ident, ", ".join("v%d" % i for i in range(nf)))
            rargs = ", ".join("v%d" % i for i in range(nf))
        out_h.append(("rnd%d" % k, not named, binds, ctor, rargs, lit, True))
    return out_src, out_h


def placeholder_program(pname, tier, rng=None):
    hs = []
    ph = list(PH)
    src = PH_SRC
    if rng is not None:
        vsrc, vh = rand_placeholder_variants(rng, 4 if tier == "quick" else 16)
        src = src.replace('    #[strum(to_string = "no placeholder {{}}")]', "\n".join(vsrc) + '\n    #[strum(to_string = "no placeholder {{}}")]')
        ph += vh
    for nm, stub, binds, ctor, rargs, lit, sym in ph:
        body = """    %(binds)s
    let v = %(ctor)s;
    let mut a = Buf::<48>::new();
    let mut b = Buf::<48>::new();
    let ra = write!(a, "{}", v);
    let rb = write!(b, "%(lit)s", %(rargs)s);
%(cover)s
    assert!(ra.is_ok() == rb.is_ok(), "formatting result differs");
    assert!(!a.overflow && a.same(&b), "a placeholder variant does not render like format! of its literal with the fields bound");
    core::mem::forget(v);
""" % {"binds": binds, "ctor": ctor, "lit": lit, "rargs": rargs,
            "cover": '    vcover!(a.n > 0, "something was written");' if sym else ""}
        hs.append(Harness(name="h_ph_%s" % nm, body=body, unwind=52, kind="symbolic" if sym else "witness",
                          stub=("alloc::fmt::format", "format_stub") if stub else None,
                          desc="to_string = %r rendered through Display == write!(.., %r, fields) ; %s" % (
                              lit, lit, "symbolic payload content (one ASCII letter each)" if sym else "concrete extreme integers (executed, not solver-quantified)"),
                          bound={"literal": lit, "payload": "Ch(u8) symbolic" if sym else "concrete"}, min_covers=1 if sym else 0,
                          functions=["<Ph as Display>::fmt", "core::fmt::write", "alloc::fmt::format (stubbed allocation only)" if stub else "format_args!"]))
    # fixed-name variant next to placeholder ones + width on a fixed name of a tuple variant in this enum
    body = """    let x = Ch(nd_u8());
    let v = Ph::Plain(x);
    let w = nd_usize();
    vassume(w <= 24);
    vcover!(w == 24, "widest");
    let mut a = Buf::<48>::new();
    let mut b = Buf::<48>::new();
    let _ = write!(a, "{:>w$}", v, w = w);
    let _ = write!(b, "{:>w$}", "no placeholder {{}}", w = w);
    assert!(a.same(&b), "a name with only escaped braces must be printed verbatim like a str");
"""
    hs.append(Harness(name="h_ph_plain_escaped", body=body, unwind=52, kind="symbolic",
                      desc="to_string with only escaped braces on a tuple variant: printed verbatim (like AsRefStr), honouring width", bound={"width": "0..24"},
                      min_covers=1, functions=["<Ph as Display>::fmt"]))
    return Program(name=pname, enum_src=src, harnesses=hs, summary=src, note="placeholder literals over tuple and named variants (fixed list + seeded random literals)")


def build(tier, seed):
    rng = mk_rng(seed, "C17")
    programs = [fixed_program("p000", tier), placeholder_program("p001", tier, rng)]
    return {
        "programs": programs,
        "stubbing": True,
        "stubs": ["alloc::fmt::format -> format_stub (tuple-variant placeholder harnesses only): runs the real core::fmt::write on the real Arguments into a 48-byte buffer, returns String::from(..)"],
        "harness_timeout": 900 if tier == "quick" else 3000,
        "bounds": {"width": "0..10 quick / 0..14 thorough", "precision": "concrete in quick, symbolic 0..8 in thorough",
                   "placeholder payloads": "Ch(u8): symbolic content, rendered length 1; integers concrete (symbolic rendered length does not finish: 592 s / no answer)"},
        "assumptions": ["program dimension enumerated (two fixed-name enums, one placeholder enum)",
                        "oracle is core's own formatting of the name / of the same literal (differential)",
                        "only `{}` is applied on top of placeholder variants (the statement fixes nothing about outer width there)"],
        "outside": ["payloads whose rendered length is symbolic", "width > bound", "tuple literals that omit a field (rejected by format! itself)"],
    }
