"""C10 - EnumTable is a total map from enabled variants to values.

Inductive step: table built by new(a0..a_{m-1}) from symbolic u32s (every table state is such a tuple - there is
no invariant), one symbolic write through IndexMut, then every key is read back.  Constructors, transform, all,
all_ok against their specification; indexing with a disabled variant must panic (kani::should_panic)."""
import copy
from gen import *
from framework import Harness, Program


def U(ident, **kw):
    return Variant(ident=ident, **kw)


def pivot():
    S = []
    S.append(EnumSpec("Color", [U("Red"), U("Yellow"), U("Green"), U("Teal", disabled=True), U("Blue"), U("Indigo"), U("Violet")],
                      note="7 variants, one disabled in the middle (shape of the repository's test)"))
    S.append(EnumSpec("One", [U("Only")], note="1 enabled variant"))
    S.append(EnumSpec("DisFirst", [U("Off", disabled=True), U("A"), U("B")], note="disabled first"))
    S.append(EnumSpec("DisLast", [U("A"), U("B"), U("C"), U("Off", disabled=True)], note="disabled last"))
    S.append(EnumSpec("Snake", [U("A1"), U("HTTPServer"), U("Io2Go"), U("X"), U("AbCd")], note="identifiers whose field name needs snakify (digits, acronyms)"))
    S.append(EnumSpec("DisAttr", [
        U("A"), U("H1", disabled=True, message="m", serialize=["h1"]), U("B"), U("H2", disabled=True, message="m2", flags_last=True), U("C"),
        U("H3", disabled=True, attr_style="trailing"), U("H4", disabled=True, props=[[("k", "v")]], flags_last=True), U("D"),
    ], note="`disabled` combined with other items in one attribute (before / after key = value items), trailing comma, next to props(..)"))
    S.append(EnumSpec("Annotated", [U("Low", serialize=["low"], message="m"), U("Mid"), U("High", props=[[("disabled", "true"), ("default", 1)]]), U("Top"),
                                    U("Off", disabled=True), U("Last", to_string="last")],
                      note="ENABLED variants carrying strum attributes (serialize / message / props with keyword-like keys) before plain ones"))
    S.append(EnumSpec("Eight", [U("V%d" % i) for i in range(8)], note="8 enabled variants"))
    S.append(EnumSpec("Disc", [U("A", disc="5", disc_val=5), U("B"), U("H", disabled=True), U("C", disc="1", disc_val=1)],
                      repr="u8", note="explicit discriminants not in declaration order"))
    return S


def random_specs(rng, n):
    out = []
    for k in range(n):
        nv = rng.randint(1, 8)
        vs = [Variant(ident=i, disabled=rng.random() < 0.25) for i in rand_idents(rng, nv)]
        if all(v.disabled for v in vs):
            vs[0].disabled = False
        if rng.random() < 0.5:
            vals = rng.sample(range(0, 200, 3), nv)      # distinct, gaps >= 3, arbitrary order
            for v, x in zip(vs, vals):
                if rng.random() < 0.6:
                    v.disc, v.disc_val = str(x), x
            # implicit successors must not collide with an explicit value
            seen, prev, ok = set(), None, True
            for v in vs:
                cur = v.disc_val if v.disc is not None else (0 if prev is None else prev + 1)
                if cur in seen:
                    ok = False
                seen.add(cur)
                prev = cur
            if not ok:
                for v in vs:
                    v.disc, v.disc_val = None, None
        out.append(decorate(rng, EnumSpec("R%d" % k, vs, role="random", note="random")))
    return out


def program(spec: EnumSpec, pname, tier):
    spec = copy.deepcopy(spec)
    spec.derives = ["EnumTable"]
    spec.std_derives = ["Debug", "Clone", "Copy", "PartialEq"]
    E = spec.name
    T = E + "Table"
    en = [v for v in spec.variants if not v.disabled]
    dis = [v for v in spec.variants if v.disabled]
    m = len(en)
    src = render_enum(spec) + "\n"
    helper = "pub const M: usize = %d;\n" % m
    helper += "pub fn key(j: usize) -> %s { match j { %s _ => unreachable!() } }\n" % (E, " ".join("%d => %s::%s," % (j, E, v.ident) for j, v in enumerate(en)))
    helper += "pub fn eidx(e: %s) -> usize { match e { %s } }\n" % (E, " ".join(
        "%s::%s => %s," % (E, v.ident, (str(en.index(v)) if not v.disabled else "999")) for v in spec.variants))
    args = ", ".join("a[%d]" % j for j in range(m))
    fns = ["%s::new" % T, "%s::filled" % T, "%s::from_closure" % T, "%s::transform" % T, "<%s as Index<%s>>::index" % (T, E),
           "<%s as IndexMut<%s>>::index_mut" % (T, E), "%s::all" % T, "%s::all_ok" % T]
    hs = []
    body = """    let mut a = [0u32; M];
    let mut i = 0; while i < M { a[i] = nd_u32(); i += 1; }
    let mut t = %(T)s::new(%(args)s);
    // new() takes slots in declaration order
    let j0 = nd_usize(); vassume(j0 < M);
    assert!(t[key(j0)] == a[j0], "new(..) does not take the slots in declaration order");
    // one write through IndexMut, then every key is read back
    let k = nd_usize(); vassume(k < M);
    let v = nd_u32();
    t[key(k)] = v;
    let j = nd_usize(); vassume(j < M);
    vcover!(j == k, "read the written key");
    vcover!(j != k || M == 1, "read another key");
    assert!(t[key(j)] == (if j == k { v } else { a[j] }), "a write to k changed another slot or was lost");
    // second write (history of length 2)
    let k2 = nd_usize(); vassume(k2 < M);
    let v2 = nd_u32();
    t[key(k2)] = v2;
    let j2 = nd_usize(); vassume(j2 < M);
    let exp = if j2 == k2 { v2 } else if j2 == k { v } else { a[j2] };
    assert!(t[key(j2)] == exp, "after two writes a read does not return the last value written for that key");
""" % {"T": T, "args": args}
    hs.append(Harness(name="h_write_read", body=body, unwind=m + 2, kind="symbolic",
                      desc="table = new(symbolic u32 per slot); write k:=v (then k2:=v2) through IndexMut; every key j reads the last value written or the constructed value",
                      bound={"slots": m, "values": "all u32", "writes": 2}, min_covers=2, functions=fns))
    body = """    let x = nd_u32();
    let f = %(T)s::filled(x);
    let j = nd_usize(); vassume(j < M);
    vcover!(j + 1 == M, "last slot");
    assert!(f[key(j)] == x, "filled(x)[k] != x");
    let mut c = [0u32; M];
    let mut i = 0; while i < M { c[i] = nd_u32(); i += 1; }
    let g = %(T)s::from_closure(|e| c[eidx(e)]);
    assert!(g[key(j)] == c[j], "from_closure(f)[k] != f(k)");
    let h = g.transform(|e, old| (*old ^ 0x5a5a_0000) .wrapping_add(eidx(e) as u32));
    assert!(h[key(j)] == (c[j] ^ 0x5a5a_0000).wrapping_add(j as u32), "transform(f)[k] != f(k, &old[k])");
    assert!(g[key(j)] == c[j], "transform changed the source table");
    let d: %(T)s<u8> = Default::default();
    assert!(d[key(j)] == 0);
    let cl = g.clone();
    assert!(cl == g && cl[key(j)] == c[j], "clone differs");
""" % {"T": T}
    hs.append(Harness(name="h_constructors", body=body, unwind=m + 2, kind="symbolic",
                      desc="filled(x)[k]==x, from_closure(f)[k]==f(k), transform(g)[k]==g(k,&old[k]) for every key and symbolic values",
                      bound={"slots": m, "values": "all u32"}, min_covers=1, functions=fns))
    body = """    let mut o = [None::<u8>; M];
    let mut i = 0; while i < M { if nd_bool() { o[i] = Some(nd_u8()); } i += 1; }
    let t = %(T)s::from_closure(|e| o[eidx(e)]);
    let mut all_some = true;
    let mut i = 0; while i < M { if o[i].is_none() { all_some = false; } i += 1; }
    vcover!(all_some, "every slot is Some");
    vcover!(!all_some, "some slot is None");
    let r = t.all();
    let j = nd_usize(); vassume(j < M);
    match r {
        Some(u) => { assert!(all_some, "all() is Some although a slot is None"); assert!(Some(u[key(j)]) == o[j], "all() changed a value"); }
        None => { assert!(!all_some, "all() is None although every slot is Some"); }
    }
    // all_ok: first Err in declaration order
    let mut q = [Ok::<u8, u8>(0); M];
    let mut i = 0; while i < M { q[i] = if nd_bool() { Ok(nd_u8()) } else { Err(nd_u8()) }; i += 1; }
    let mut first: Option<u8> = None;
    let mut i = 0; while i < M { if first.is_none() { if let Err(e) = q[i] { first = Some(e); } } i += 1; }
    let tq = %(T)s::from_closure(|e| q[eidx(e)]);
    vcover!(first.is_some() && M > 1 && q[0].is_ok(), "first error is not in the first slot");
    match (tq.all_ok(), first) {
        (Ok(u), None) => { assert!(Ok(u[key(j)]) == q[j], "all_ok() changed a value"); }
        (Err(e), Some(x)) => { assert!(e == x, "all_ok() did not return the FIRST Err in declaration order"); }
        (Ok(_), Some(_)) => { assert!(false, "all_ok() is Ok although a slot is Err"); }
        (Err(_), None) => { assert!(false, "all_ok() is Err although every slot is Ok"); }
    }
""" % {"T": T}
    ncov = 3
    if m == 1:
        body = body.replace('    vcover!(first.is_some() && M > 1 && q[0].is_ok(), "first error is not in the first slot");\n', "")
        ncov = 2
    hs.append(Harness(name="h_all_all_ok", body=body, unwind=m + 2, kind="symbolic",
                      desc="all() is Some iff every slot is Some (content preserved); all_ok() returns the first Err in declaration order, else the table; symbolic slots",
                      bound={"slots": m, "values": "all Option<u8> / Result<u8,u8>"}, min_covers=ncov, functions=fns))
    for v in dis[:2]:
        hs.append(Harness(name="h_disabled_index_%s" % v.ident.lower(), body="    let t = %s::filled(7u8);\n    let _x = t[%s::%s];" % (T, E, v.ident),
                          should_panic=True, kind="symbolic", desc="reading table[%s] (disabled variant) must panic" % v.ident,
                          bound={}, functions=fns))
        hs.append(Harness(name="h_disabled_index_mut_%s" % v.ident.lower(),
                          body="    let mut t = %s::filled(7u8);\n    t[%s::%s] = 9u8;   // no free variable: the native replay of a missing panic needs no values" % (T, E, v.ident),
                          should_panic=True, kind="symbolic", desc="writing table[%s] (disabled variant) must panic" % v.ident,
                          bound={}, functions=fns))
    # public signatures the property fixes: one constructor argument / one slot per ENABLED variant, indexable by the enum
    api = "pub fn api_table_shape() {\n    let t: %s<u8> = %s::new(%s);\n    let _: &u8 = &t[key(0)];\n}\n" % (T, T, ", ".join("%du8" % j for j in range(m)))
    return Program(name=pname, enum_src=src, helper_src=helper, api_src=api, harnesses=hs, summary=render_enum(spec), role=spec.role, note=spec.note)


def build(tier, seed):
    rng = mk_rng(seed, "C10")
    specs = pivot() + random_specs(rng, 6 if tier == "quick" else 20)
    programs = [program(s, "p%03d" % i, tier) for i, s in enumerate(specs)]
    return {
        "programs": programs,
        "harness_timeout": 300 if tier == "quick" else 1200,
        "bounds": {"slots": "1..8 enabled variants", "values": "full u32 / Option<u8> / Result<u8,u8>", "writes": "2 symbolic writes from an arbitrary table"},
        "assumptions": ["program dimension enumerated", "every table state equals new(a0..) for some tuple, so the write step from a symbolic tuple covers histories of any length",
                        "should_panic harnesses have no cover witnesses (Kani reports the expected panic)"],
        "outside": ["enums outside the corpus"],
    }
