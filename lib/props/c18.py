"""C18 - a custom parse error is the user's function applied to the exact rejected input.

f is harness-defined: it copies s into a fixed buffer inside the error value and bumps a counter.
sym: s = any valid UTF-8 string <= N bytes."""
import copy
from strgen import *

ERR = """#[derive(Debug, PartialEq)]
pub struct MyErr { pub b: [u8; 16], pub n: usize, pub too_long: bool }
pub static mut CALLS: u32 = 0;
pub fn calls() -> u32 { unsafe { CALLS } }
pub fn my_err(s: &str) -> MyErr { make_err(s) }
pub fn not_found(s: &str) -> MyErr { make_err(s) }
pub fn parse_error(s: &str) -> MyErr { make_err(s) }
pub fn fallback(s: &str) -> MyErr { make_err(s) }
pub fn from_str_err(s: &str) -> MyErr { make_err(s) }
pub fn make_err(s: &str) -> MyErr {
    unsafe { CALLS += 1; }
    let sb = s.as_bytes();
    let mut b = [0u8; 16];
    let mut i = 0;
    while i < sb.len() && i < 16 { b[i] = sb[i]; i += 1; }
    MyErr { b, n: sb.len(), too_long: sb.len() > 16 }
}
"""


def U(ident, **kw):
    return Variant(ident=ident, **kw)


def pivot():
    d = ["EnumString"]
    kw = dict(derives=d, parse_err_ty="MyErr", parse_err_fn="my_err")
    S = []
    S.append(EnumSpec("Cs", [U("Red"), U("Blue", serialize=["b", "blue"]), U("Gr", fields=[Field("u8")])], note="case-sensitive", **kw))
    S.append(EnumSpec("Ci", [U("Red"), U("Blue", serialize=["b1", "Blue"])], aci=True,
                      note="case-insensitive (the arms rebind s; the error must still carry the original input)", **kw))
    S.append(EnumSpec("Mixed", [U("On", aci=True), U("Off"), U("Hid", disabled=True), U("Mid", aci=True, aci_bare=True, to_string="m")],
                      note="mixed case sensitivity + disabled", **kw))
    S.append(EnumSpec("Zero", [U("A", disabled=True)], note="zero enabled variants: every input is rejected", **kw))
    S.append(EnumSpec("Sa", [U("DarkBlack"), U("Io2")], serialize_all="SCREAMING_SNAKE_CASE", aci=True, note="serialize_all + case-insensitive", **kw))
    S.append(EnumSpec("Units", [U("Micro", serialize=["\u00b5m"]), U("M", serialize=["m"]), U("Mm", serialize=["mm"])],
                      note="the longest spelling in BYTES is non-ASCII (char count < byte length)", **kw))
    S.append(EnumSpec("Shared", [U("CmdStart"), U("CmdStop"), U("CmdStatus", serialize=["cmd_status", "cmd_st"])], serialize_all="snake_case",
                      note="every spelling starts with the same text (namespaced commands) and two end alike", **kw))
    S.append(EnumSpec("Ws", [U("A", serialize=[" a "]), U("B", serialize=["b"])], note="spelling with surrounding whitespace (trimmed input must not match or be reported)", **kw))
    return S


def program(spec, pname, tier, cap):
    N = n_for(spec, extra=2, cap=cap, floor=4)
    plain = copy.deepcopy(spec)
    plain.name = spec.name + "Std"
    plain.parse_err_ty = None
    plain.parse_err_fn = None
    src = ERR + render_enum(spec) + "\n" + render_enum(plain) + "\n"
    helper = variant_index_fn(spec) + "\n" + payload_ok_fn(spec) + "\n" + oracle_fn(spec) + "\n" + variant_index_fn(plain, "sidx") + "\n"
    E = spec.ty()
    helper += """pub fn check_custom(r: &Result<%(E)s, MyErr>, o: Option<usize>, input: &[u8], before: u32, after: u32) {
    match (r, o) {
        (Ok(v), Some(i)) => {
            assert!(vidx(v) == i, "parsed to a different variant");
            assert!(payload_ok(v), "payload is not the default");
            assert!(after == before, "parse_err_fn was invoked although the input matched");
        }
        (Err(e), None) => {
            assert!(e.n == input.len() && !e.too_long && beq(&e.b[..e.n], input), "the error does not carry the caller's input unchanged");
            assert!(after == before + 1, "parse_err_fn was not invoked exactly once for a rejected input");
        }
        (Ok(_), None) => { assert!(false, "an input that is no spelling was accepted"); }
        (Err(_), Some(_)) => { assert!(false, "a declared spelling was rejected"); }
    }
}
""" % {"E": E}
    body = """    let ss = SymStr::<%(N)d>::utf8();
    let s = ss.as_str();
    let o = oracle(ss.bytes());
    vcover!(o.is_some(), "accepted input");
    vcover!(o.is_none() && ss.len > 1 && !all_ascii(ss.bytes()), "rejected non-ASCII input");
    vcover!(o.is_none() && ss.len > 0 && (ss.b[0] == b' ' || ss.b[ss.len - 1] == b' '), "rejected input with outer whitespace");
    let c0 = calls();
    let r = <%(E)s as core::str::FromStr>::from_str(s);
    let c1 = calls();
    check_custom(&r, o, ss.bytes(), c0, c1);
    let t = <%(E)s as core::convert::TryFrom<&str>>::try_from(s);
    let c2 = calls();
    check_custom(&t, o, ss.bytes(), c1, c2);
    // twin without the attributes: always strum::ParseError::VariantNotFound
    let p = <%(P)s as core::str::FromStr>::from_str(s);
    match (&p, o) {
        (Ok(v), Some(i)) => { assert!(sidx(v) == i, "twin parsed differently"); }
        (Err(e), None) => { assert!(*e == strum::ParseError::VariantNotFound, "standard error is not VariantNotFound"); }
        _ => { assert!(false, "twin without parse_err attributes disagrees with the reference parser"); }
    }
    assert!(calls() == c2, "parse_err_fn invoked by an enum that does not declare it");
""" % {"N": N, "E": E, "P": plain.ty()}
    ncov = 3
    if not [v for v in enabled(spec) if not v.default and any(len(sp.encode()) <= N for sp in spellings(spec, v))]:
        body = body.replace('    vcover!(o.is_some(), "accepted input");\n', "")
        ncov = 2
    api = """pub fn api_err_types() {
    let _a: Result<%(E)s, MyErr> = <%(E)s as core::str::FromStr>::from_str("");
    let _b: Result<%(E)s, MyErr> = <%(E)s as core::convert::TryFrom<&str>>::try_from("");
    let _c: Result<%(P)s, strum::ParseError> = <%(P)s as core::str::FromStr>::from_str("");
}
""" % {"E": E, "P": plain.ty()}
    fns = ["<%s as FromStr>::from_str" % spec.name, "<%s as TryFrom<&str>>::try_from" % spec.name, "my_err (declared parse_err_fn)"]
    hs = [Harness(name="h_custom_err_n%d" % N, body=body, unwind=max(N + 2, 18), kind="symbolic",
                  desc="rejected => Err(f(s)) with s unchanged and f called once; accepted => Ok and f not called; from_str and try_from; every valid UTF-8 s <= %d bytes" % N,
                  bound={"N_bytes": N, "alphabet": "all valid UTF-8"}, min_covers=ncov, functions=fns)]
    ws = witness_inputs(spec, limit=(16 if tier == "quick" else 48))
    # small chunks: a changed tree may route concrete inputs through code CBMC cannot fold (from_utf8, Unicode tables)
    for ci in range(0, len(ws), 3):
        chunk = ws[ci:ci + 3]
        wb = []
        for w in chunk:
            wb.append("    { let ss = SymStr::<16>::fixed(%s); let s = ss.as_str(); let o = oracle(ss.bytes()); let c0 = calls();" % rust_bytes(w.encode()))
            wb.append("      let r = <%s as core::str::FromStr>::from_str(s); let c1 = calls(); check_custom(&r, o, ss.bytes(), c0, c1);" % E)
            wb.append("      let t = <%s as core::convert::TryFrom<&str>>::try_from(s); let c2 = calls(); check_custom(&t, o, ss.bytes(), c1, c2); }" % E)
        hs.append(Harness(name="h_custom_err_witness_%d" % (ci // 3), body="\n".join(wb), unwind=20, kind="witness",
                          desc="fixed inputs derived from the spellings (case flips, outer whitespace, one-char edits, look-alikes): %s" % ", ".join(repr(w) for w in chunk),
                          bound={"inputs": chunk}, functions=fns))
    hs.append(Harness(name="h_e2_replay", native_only=True, desc="replay vehicle for E2 models: any valid UTF-8 input up to 64 bytes",
                      body="    let ss = SymStr::<64>::utf8();\n    let c0 = calls();\n    let r = <%s as core::str::FromStr>::from_str(ss.as_str());\n    let c1 = calls();\n"
                           "    if ss.len <= 16 { check_custom(&r, oracle(ss.bytes()), ss.bytes(), c0, c1); } else { assert!(r.is_ok() == oracle(ss.bytes()).is_some()); }" % E))
    return Program(name=pname, enum_src=src, helper_src=helper, api_src=api, harnesses=hs, summary=render_enum(spec), role=spec.role, note=spec.note)


specs_cache = {}

E2_ERR = """pub struct MyErr(pub usize);
pub fn my_err(s: &str) -> MyErr { MyErr(s.len()) }
pub fn not_found(s: &str) -> MyErr { MyErr(s.len()) }
pub fn parse_error(s: &str) -> MyErr { MyErr(s.len()) }
pub fn fallback(s: &str) -> MyErr { MyErr(s.len()) }
pub fn from_str_err(s: &str) -> MyErr { MyErr(s.len()) }
"""


def e2(run, programs, tier, seed, known):
    import e2str
    specs = [s for s in specs_cache.get((tier, seed), []) if not s.generics]
    return e2str.run_e2(run, programs, specs, E2_ERR, ["my_err", "not_found", "parse_error", "fallback", "from_str_err"],
                        lambda sp: sp.parse_err_fn, known)


def build(tier, seed):
    rng = mk_rng(seed, "C18")
    cap = 10 if tier == "quick" else 14
    import props.c01 as c01
    rnd = []
    for s in c01.random_specs(rng, 6 if tier == "quick" else 24):
        if default_variant(s) is None and not s.generics:
            s.parse_err_ty, s.parse_err_fn = "MyErr", "my_err"
            rnd.append(s)
    rnd = rnd[: (2 if tier == "quick" else 10)]
    specs = pivot() + rnd
    # vary the NAME of the declared function: a generated helper or local with the same name must not capture it
    for i, s in enumerate(specs):
        s.parse_err_fn = ["my_err", "not_found", "parse_error", "fallback", "from_str_err"][i % 5]
    programs = [program(s, "p%03d" % i, tier, cap) for i, s in enumerate(specs)]
    specs_cache[(tier, seed)] = specs
    return {
        "programs": programs,
        "harness_timeout": 600 if tier == "quick" else 2400,
        "bounds": {"N": "longest spelling + 2 bytes, capped at %d; full UTF-8" % cap},
        "assumptions": ["program dimension enumerated", "single-threaded harness: the call counter is a static mut",
                        "f is the harness-defined function my_err; any other f is outside the claim"],
        "outside": ["inputs longer than N bytes"],
    }
