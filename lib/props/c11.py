"""C11 - default and transparent variants capture and forward their inner value verbatim.

default:     sym s (valid UTF-8 <= N bytes) not claimed by another variant; from_str(s) holds s verbatim,
             Display prints s, and `{:SPEC}` of the value equals `{:SPEC}` of s (two-buffer differential,
             symbolic width).
transparent: inner = derived field-less enum / &'static str chosen by a symbolic selector; Display,
             as_ref(), <&'static str>::from equal what the inner value returns, formatter flags reach it."""
from strgen import *


def U(ident, **kw):
    return Variant(ident=ident, **kw)


SPECS_QUICK = [("plain", "{}", False), ("right_w", "{:>w$}", True), ("center_fill_prec2", "{:-^w$.2}", True)]
SPECS_THOROUGH = SPECS_QUICK + [("left_w", "{:w$}", True), ("fill_left", "{:*<w$}", True), ("prec0", "{:.0}", False),
                                ("utf8_fill", "{:é>w$}", True), ("w_and_p", "{:>w$.p$}", True)]


CAPTURED = ["", " x ", "Z\u00e9", "aA", "a b"]


def default_program(spec, pname, tier, N, utf8):
    dv = default_variant(spec)
    src = render_enum(spec) + "\n"
    helper = variant_index_fn(spec) + "\n" + payload_ok_fn(spec) + "\n" + oracle_fn(spec) + "\n" + check_parse_fn(spec) + "\n"
    helper += "pub fn captured(k: u8) -> &'static str { match k { %s _ => \"zz\" } }\n" % " ".join(
        "%d => %s," % (i, rust_str(c)) for i, c in enumerate(CAPTURED))
    E = spec.ty()
    hs = []
    fns = ["<%s as FromStr>::from_str" % spec.name, "<%s as Display>::fmt" % spec.name, "<str as Display>::fmt", "Formatter::pad"]
    # 1. capture verbatim + plain print, symbolic content
    body = """    let ss = SymStr::<%(N)d>::%(alpha)s();
    let s = ss.as_str();
    let o = oracle(ss.bytes());
    let r = <%(E)s as core::str::FromStr>::from_str(s);
    check_parse(&r, o, ss.bytes());
    vassume(o.is_none());                     // only inputs no other variant claims
    vcover!(ss.len >= 2 && ss.b[0] == b' ' && ss.b[ss.len - 1] == b' ', "captured input has outer spaces");
    vcover!(ss.len == 0, "captured input is empty");
    vcover!(ss.len >= 2 && !all_ascii(ss.bytes()), "captured input is non-ASCII");
    match r {
        Ok(ref v) => {
            let mut a = Buf::<8>::new();
            let ra = write!(a, "{}", v);
            assert!(ra.is_ok() && !a.overflow && beq(a.bytes(), ss.bytes()), "from_str(s)?.to_string() != s for an input no other variant claims");
        }
        Err(_) => { assert!(false, "default variant declared but parse failed"); }
    }
    core::mem::forget(r);
""" % {"N": N, "alpha": "utf8" if utf8 else "ascii", "E": E}
    hs.append(Harness(name="h_default_capture_print_n%d" % N, body=body, unwind=N + 4, kind="symbolic",
                      desc="default variant: from_str(s) holds s verbatim and Display prints exactly s; every %s s <= %d bytes not claimed by another variant" % (
                          "valid UTF-8" if utf8 else "ASCII", N),
                      bound={"N_bytes": N, "alphabet": "UTF-8" if utf8 else "ASCII"}, min_covers=3 if utf8 else 2, functions=fns))
    if not utf8:
        hs[-1].body = hs[-1].body.replace('    vcover!(ss.len >= 2 && !all_ascii(ss.bytes()), "captured input is non-ASCII");\n', "")
    # 2. formatter flags reach the inner value: one harness per (spec, captured value); the captured value is concrete
    #    (a symbolic choice among strings makes Formatter::pad's char counting intractable), width/precision symbolic
    for nm, fs, hasw in (SPECS_QUICK if tier == "quick" else SPECS_THOROUGH):
        if nm == "plain":
            continue
        hasp = "p$" in fs
        args = (", w = w" if hasw else "") + (", p = p" if hasp else "")
        for ci, cap in enumerate(CAPTURED):
            body = """    let s = %(lit)s;
    let r = <%(E)s as core::str::FromStr>::from_str(s);
    let v = match r { Ok(v) => v, Err(_) => { assert!(false, "default variant declared but parse failed"); return; } };
    assert!(vidx(&v) == %(di)d, "not captured by the default variant");
    let w = nd_usize();
    vassume(w <= 6);
    let p = nd_usize();
    vassume(p <= 3);
    vcover!(w == 6 && p == 1, "width 6");
    let mut a = Buf::<16>::new();
    let mut b = Buf::<16>::new();
    let ra = write!(a, "%(fs)s", v%(args)s);
    let rb = write!(b, "%(fs)s", s%(args)s);
    assert!(ra.is_ok() == rb.is_ok(), "formatting result differs");
    assert!(a.same(&b), "Display of the default variant differs from formatting the captured string with the same spec");
    core::mem::forget(v);
""" % {"E": E, "fs": fs, "args": args, "lit": rust_str(cap), "di": spec.variants.index(dv)}
            hs.append(Harness(name="h_default_flags_%s_c%d" % (nm, ci), body=body, unwind=20, kind="symbolic",
                              desc="default variant: `%s` of the value == `%s` of the captured string %r; every width <= 6%s" % (
                                  fs, fs, cap, ", precision <= 3" if hasp else ""),
                              bound={"captured": cap, "width": "0..6", "spec": fs}, min_covers=1, functions=fns))
    return Program(name=pname, enum_src=src, helper_src=helper, harnesses=hs, summary=render_enum(spec), role=spec.role, note=spec.note)


TRANSPARENT_SRC = """#[derive(Debug, Clone, Copy, PartialEq, strum::Display, strum::AsRefStr, strum::IntoStaticStr)]
#[strum(serialize_all = "Train-Case")]
pub enum Inner { #[strum(serialize = "in-a", serialize = "a")] A, BbCc, #[strum(to_string = "é!")] Cc }

#[derive(Debug, Clone, PartialEq, strum::Display, strum::AsRefStr, strum::IntoStaticStr)]
pub enum Tr {
    Plain,
    #[strum(transparent)]
    In(Inner),
    #[strum(transparent)]
    St { s: &'static str },
    #[strum(serialize = "tail")]
    Tail(u8),
}
pub fn inner_of(k: u8) -> Inner { match k { 0 => Inner::A, 1 => Inner::BbCc, _ => Inner::Cc } }
pub fn lit_of(k: u8) -> &'static str { match k { 0 => "", 1 => "x y", 2 => "\\u{e9}t\\u{e9}", _ => "Plain" } }
"""


def transparent_program(pname, tier, combined=False):
    """combined: the transparent variants also carry to_string / serialize (transparent still decides what is printed)."""
    SRC = TRANSPARENT_SRC
    if combined:
        SRC = SRC.replace("    #[strum(transparent)]\n    In(Inner),", '    #[strum(transparent, to_string = "unit")]\n    In(Inner),')
        SRC = SRC.replace("    #[strum(transparent)]\n    St {", '    #[strum(serialize = "st", serialize = "longer-st")]\n    #[strum(transparent)]\n    St {')
        assert SRC != TRANSPARENT_SRC
    hs = []
    fns = ["<Tr as Display>::fmt", "<Tr as AsRef<str>>::as_ref", "<&'static str as From<&Tr>>::from", "<&'static str as From<Tr>>::from",
           "<Inner as Display>::fmt"]
    # names (AsRef / From) for every inner value: symbolic selector, no formatting
    body = """    let k = nd_u8();
    vassume(k < 3);
    let sel = nd_bool();
    vcover!(sel && k == 2, "transparent over a derived enum whose name is non-ASCII");
    vcover!(!sel && k == 1, "transparent over a &'static str field");
    if sel {
        let inner = inner_of(k);
        let v = Tr::In(inner);
        assert!(beq(AsRef::<str>::as_ref(&v).as_bytes(), AsRef::<str>::as_ref(&inner).as_bytes()), "as_ref() of a transparent variant differs from the inner value's");
        let by_ref: &'static str = <&'static str>::from(&v);
        let inner_s: &'static str = <&'static str>::from(inner);
        assert!(beq(by_ref.as_bytes(), inner_s.as_bytes()), "<&'static str>::from(&v) differs from the inner value's");
        let by_val: &'static str = <&'static str>::from(v);
        assert!(beq(by_val.as_bytes(), inner_s.as_bytes()), "<&'static str>::from(v) differs from the inner value's");
    } else {
        let lit = lit_of(k + 1);
        let v = Tr::St { s: lit };
        assert!(beq(AsRef::<str>::as_ref(&v).as_bytes(), lit.as_bytes()), "as_ref() of a transparent &str variant differs");
        let by_ref: &'static str = <&'static str>::from(&v);
        assert!(beq(by_ref.as_bytes(), lit.as_bytes()), "<&'static str>::from(&v) differs");
        let by_val: &'static str = <&'static str>::from(v);
        assert!(beq(by_val.as_bytes(), lit.as_bytes()), "<&'static str>::from(v) differs");
    }
"""
    hs.append(Harness(name="h_transparent_names", body=body, unwind=12, kind="symbolic",
                      desc="transparent variants: as_ref(), <&'static str>::from(&v / v) equal the inner value's, for every inner value",
                      bound={"selector": "all inner values"}, min_covers=2, functions=fns))
    for nm, fs, hasw in (SPECS_QUICK if tier == "quick" else SPECS_THOROUGH):
        hasp = "p$" in fs
        args = (", w = w" if hasw else "") + (", p = p" if hasp else "")
        for sel, k in ((True, 0), (True, 1), (True, 2), (False, 0), (False, 1), (False, 2)):
            mk = ("let inner = inner_of(%d); let v = Tr::In(inner);" % k) if sel else ("let inner = lit_of(%d); let v = Tr::St { s: inner };" % (k + 1))
            body = """    %(mk)s
    let w = nd_usize();
    vassume(w <= 6);
    let p = nd_usize();
    vassume(p <= 3);
    vcover!(w == 6 && p == 1, "width 6");
    let mut a = Buf::<16>::new();
    let mut b = Buf::<16>::new();
    let ra = write!(a, "%(fs)s", v%(args)s);
    let rb = write!(b, "%(fs)s", inner%(args)s);
    assert!(ra.is_ok() == rb.is_ok());
    assert!(a.same(&b), "Display of a transparent variant differs from Display of its inner value under the same spec");
""" % {"fs": fs, "args": args, "mk": mk}
            hs.append(Harness(name="h_transparent_%s_%s%d" % (nm, "in" if sel else "st", k), body=body, unwind=20, kind="symbolic",
                              desc="transparent %s variant, inner value #%d: Display with \"%s\" equals the inner value's, every width <= 6" % (
                                  "tuple(derived enum)" if sel else "named(&'static str)", k, fs),
                              bound={"inner": k, "width": "0..6", "spec": fs}, min_covers=1, functions=fns))
    return Program(name=pname, enum_src=SRC, harnesses=hs, summary=SRC, role="pivot",
                   note="transparent variants in tuple and single-named-field form" + (" that also carry to_string / serialize" if combined else ""))


def build(tier, seed):
    d = ["EnumString", "Display"]
    S = [
        EnumSpec("DefT", [U("A", serialize=["a"]), U("Other", fields=[Field("String")], default=True), U("Bee", aci=True)], derives=d,
                 note="default variant, tuple form, String"),
        EnumSpec("DefN", [U("On"), U("Rest", fields=[Field("Box<str>", name="o")], named=True, default=True)], derives=d,
                 note="default variant, single named field, Box<str>"),
        EnumSpec("DefPre", [U("Red", to_string="RedRed"), U("Other", fields=[Field("String")], default=True)], derives=d, prefix="colour/",
                 note="enum-level prefix next to a default variant: the captured value is printed verbatim, without the prefix"),
        EnumSpec("DefSer", [U("Gz", serialize=["gz", "gzip"], aci=True), U("Other", fields=[Field("String")], default=True, serialize=["other"]), U("Zs"),
                           U("Idx", serialize=["a[0]"], aci=True), U("Dash", serialize=["b-_1"], aci=True)], derives=d,
                 note="default variant that also carries `serialize` (no to_string): Display must still print the captured value"),
    ]
    programs = []
    if tier == "quick":
        programs.append(default_program(S[0], "p000", tier, 5, True))
        programs.append(default_program(S[1], "p001", tier, 4, False))
    else:
        programs.append(default_program(S[0], "p000", tier, 6, True))
        programs.append(default_program(S[1], "p001", tier, 6, True))
    programs.append(default_program(S[2], "p003", tier, 5 if tier == "quick" else 6, True))
    programs.append(default_program(S[3], "p004", tier, 5 if tier == "quick" else 6, True))
    programs.append(transparent_program("p002", tier))
    programs.append(transparent_program("p005", tier, combined=True))
    return {
        "programs": programs,
        "harness_timeout": 600 if tier == "quick" else 3000,
        "bounds": {"N": "captured input <= 4..6 bytes (symbolic content) for capture+print; flags: captured value from a fixed list, width 0..6",
                   "precision": "concrete 2 / 0 in quick; symbolic <= 3 in thorough", "Buf": "16 bytes, overflow flagged"},
        "assumptions": ["program dimension enumerated (two default-variant enums, one transparent enum)",
                        "oracle for formatting is core's own <str as Display>::fmt on the captured input / inner value (differential)"],
        "outside": ["inputs longer than N bytes", "width > 6", "inner types other than String, Box<str>, &'static str, derived enums"],
    }
