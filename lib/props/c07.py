"""C07 - each serialize_all style renames identifiers to exactly that documented case.

The identifier is a compile-time input of the macro (its conversion runs inside rustc through heck), so the
identifier dimension is ENUMERATED: every accepted style string x a dictionary of identifiers chosen to
separate the styles and the word-boundary rules.  The solver's share: for every valid UTF-8 input s <= N
bytes, from_str(s) == Ok(V) IFF s is refsem's re-cased identifier of V (so the un-cased identifier and every
other style's output are rejected), and for every variant the printing derives return that same string."""
import copy
from strgen import *

DICT_A = ["Ab", "AbCd", "ABCd", "AbCD", "aB_cd", "Ab2Cd", "A2b", "HTTPSrv"]
DICT_B = ["IoError2", "X", "__x", "Ab_", "a1B", "A_B", "x2y3Z", "Zz9"]
DICT_C = ["DarkBlack", "B2B", "V1_0", "XMLHttp", "Is2", "aBC", "Http2Go", "Q"]


def U(ident, **kw):
    return Variant(ident=ident, **kw)


def mk_spec(style, idents, name):
    vs, seen = [], set()
    for ident in idents:
        c = casing.convert(ident, style)
        if c in seen or c == "" or c in ("explicit_Name", "Tv", "OwnName"):
            continue                      # overlapping spellings are outside the domain
        seen.add(c)
        vs.append(U(ident))
    # siblings with explicit spellings must never be re-cased
    vs.append(U("ExplicitSer", serialize=["explicit_Name"]))
    vs.append(U("OwnName", serialize=["OwnName"]))
    vs.append(U("ExplicitTs", to_string="Tv", fields=[Field("u8")]))
    return EnumSpec(name, vs, serialize_all=style, note="serialize_all=%s over %s" % (style, ",".join(v.ident for v in vs[:-3])))


def program(spec: EnumSpec, pname, tier, cap):
    spec = copy.deepcopy(spec)
    spec.derives = ["EnumString", "Display", "AsRefStr", "IntoStaticStr", "VariantNames", "EnumMessage"]
    spec.std_derives = ["Debug", "Clone", "PartialEq"]
    E = spec.ty()
    N = n_for(spec, extra=1, cap=cap, floor=3)
    src = render_enum(spec) + "\n"
    names = [canonical(spec, v) for v in spec.variants]
    helper = variant_index_fn(spec) + "\n" + payload_ok_fn(spec) + "\n" + oracle_fn(spec) + "\n" + check_parse_fn(spec) + "\n" + \
        make_fn(spec, None, "make") + "\n" + bytes_table_fn("canon_decl", names) + "\n" + \
        bytes_table_fn("spell_decl", [spellings(spec, v)[0] for v in spec.variants]) + "\n"
    body, ncov = from_str_harness(spec, N, utf8=True, check_try_from=False)
    # cover: the un-cased identifier of a re-cased variant is an input and is rejected
    for v in spec.variants:
        if not v.serialize and v.to_string is None and casing.convert(v.ident, spec.serialize_all) != v.ident \
                and parse_oracle(spec, v.ident) is None and len(v.ident) <= N:
            body = body.replace("    check_parse(&r, o, ss.bytes());",
                                '    vcover!(beq(ss.bytes(), %s) && o.is_none(), "the un-cased identifier %s is an input and is rejected");\n    check_parse(&r, o, ss.bytes());' % (
                                    rust_bytes(v.ident.encode()), v.ident), 1)
            ncov += 1
            break
    fns = ["<%s as FromStr>::from_str" % spec.name]
    hs = [Harness(name="h_style_parse_n%d" % N, body=body, unwind=N + 2, kind="symbolic",
                  desc="from_str(s) == Ok(V) iff s is the %s form of V's identifier (explicit spellings un-re-cased); every valid UTF-8 s <= %d bytes" % (spec.serialize_all, N),
                  bound={"N_bytes": N, "alphabet": "all valid UTF-8", "style": spec.serialize_all}, min_covers=ncov, functions=fns)]
    nv = len(spec.variants)
    body = """    use strum::{VariantNames, EnumMessage};
    let k = nd_u8();
    vassume((k as usize) < %(nv)d);
    let v = make(k);
    let name = canon_decl(k as usize);
    vcover!(k == 0, "first variant");
    vcover!(k as usize == %(nv)d - 1, "explicit to_string sibling");
    let mut a = Buf::<32>::new();
    let _ = write!(a, "{}", v);
    assert!(!a.overflow && beq(a.bytes(), name), "Display does not print the re-cased identifier");
    assert!(beq(AsRef::<str>::as_ref(&v).as_bytes(), name), "AsRefStr does not return the re-cased identifier");
    let st: &'static str = <&'static str>::from(&v);
    assert!(beq(st.as_bytes(), name), "IntoStaticStr does not return the re-cased identifier");
    assert!(beq(<%(E)s as VariantNames>::VARIANTS[k as usize].as_bytes(), name), "VARIANTS does not hold the re-cased identifier");
    let sers = v.get_serializations();
    assert!(sers.len() == 1 && beq(sers[0].as_bytes(), spell_decl(k as usize)), "get_serializations does not hold the re-cased identifier (without prefix)");
""" % {"nv": nv, "E": E}
    hs.append(Harness(name="h_style_names", body=body, unwind=36, kind="symbolic",
                      desc="Display, AsRefStr, IntoStaticStr, VARIANTS[k], get_serializations() all equal the %s form, for every variant" % spec.serialize_all,
                      bound={"k": "all %d variants" % nv}, min_covers=2,
                      functions=["<%s as Display>::fmt" % spec.name, "<%s as VariantNames>::VARIANTS" % spec.name,
                                 "<%s as EnumMessage>::get_serializations" % spec.name]))
    return Program(name=pname, enum_src=src, helper_src=helper, harnesses=hs, summary=render_enum(spec), role=spec.role, note=spec.note)


def build(tier, seed):
    rng = mk_rng(seed, "C07")
    dicts = [DICT_A, DICT_B] if tier == "quick" else [DICT_A, DICT_B, DICT_C]
    if tier != "quick":
        pool = ["Ab", "aB", "AB", "A1", "a_b", "AbC", "ABc", "aBC", "A1b", "Ab1", "A_1", "AbCdE", "ABCDe", "Ab_Cd", "x9Y", "Xy_", "_Z", "HtTp", "IOErr", "Up2Date"]
        rng.shuffle(pool)
        dicts.append(pool[:8])
        dicts.append(pool[8:16])
    specs = []
    for st in casing.ALL_STYLE_STRINGS:
        for j, d in enumerate(dicts):
            nm = "S" + "".join(ch for ch in st.title() if ch.isalnum()) + "D%d" % j
            specs.append(mk_spec(st, d, nm))
    for st in (["kebab-case", "SCREAMING_SNAKE_CASE", "camelCase", "lowercase"] if tier == "quick" else casing.DOCUMENTED_STYLES):
        sp = mk_spec(st, DICT_C, "P" + "".join(ch for ch in st.title() if ch.isalnum()))
        sp.prefix = "px/"
        sp.note += " + prefix (printing derives prepend it to the RENAMED identifier)"
        specs.append(sp)
    cap = 12 if tier == "quick" else 16
    programs = [program(s, "p%03d" % i, tier, cap) for i, s in enumerate(specs)]
    return {
        "programs": programs,
        "harness_timeout": 600 if tier == "quick" else 2400,
        "bounds": {"styles": "all 16 accepted serialize_all strings (11 documented + 5 legacy aliases)",
                   "identifiers": "dictionary of %d identifiers (<= 8 chars), enumerated - NOT every identifier up to a length bound" % sum(len(d) for d in dicts),
                   "N": "longest re-cased name + 1 bytes, full UTF-8"},
        "assumptions": ["the identifier dimension is enumerated (heck on a symbolic identifier is out of reach: no answer in 25 min at 3 bytes)",
                        "casing.py is the independent reference for the documented word-splitting rule",
                        "identifiers whose re-cased forms collide within an enum are dropped from that (style, dictionary) program (overlap is outside the domain)"],
        "outside": ["identifiers outside the dictionary, in particular non-ASCII identifiers"],
    }
