"""C01 - EnumString returns variant V iff the input is one of V's declared spellings.

sym: s = any valid UTF-8 string of <= N bytes (N = longest spelling + 1, so every string one byte
longer than every accepted string is inside the bound).  Oracle: strgen.oracle_fn (refsem)."""
from strgen import *

HELPERS = """pub fn dw_seven() -> u8 { 7 }
pub fn dw_word() -> u16 { 0xBEEF }
pub fn dw_flag() -> bool { true }
"""

GEN = "<T: Default + Clone + PartialEq + core::fmt::Debug>"


def U(ident, **kw):
    return Variant(ident=ident, **kw)


def pivot():
    d = ["EnumString"]
    S = []
    S.append(EnumSpec("Mix", [
        U("Red", serialize=["r", "red"]),
        U("Blue", fields=[Field("u8")], to_string="blu", serialize=["b"]),
        U("Green", fields=[Field("u16", name="x")], named=True),
        U("Yellow"),
        U("Blu", disabled=True),
        U("Gone", disabled=True, serialize=["gone"]),
    ], derives=d, note="(a,b,c) unit/tuple/named, serialize x2 + to_string, explicit spelling hides the identifier, disabled near-miss"))
    S.append(EnumSpec("UniUpper", [U("Stra\u00dfe"), U("Z\u00fcrich", fields=[Field("u8")]), U("Plain")], derives=d, serialize_all="UPPERCASE",
                      note="non-ASCII identifiers under UPPERCASE (sharp s expands to SS; the half-converted form must be rejected)"))
    S.append(EnumSpec("UniLower", [U("\u00c9cu"), U("\u00c0Bas", fields=[Field("u8")]), U("Plain")], derives=d, serialize_all="lowercase",
                      note="non-ASCII identifiers under lowercase"))
    S.append(EnumSpec("ViaMacro", [U("Red", serialize=["r", "red"]), U("Blue", fields=[Field("u8")], to_string="blu", serialize=["b"]),
                                   U("Green", fields=[Field("u16", name="x")], named=True), U("Yel", aci=True, serialize=["ye"]), U("Off", disabled=True)],
                      derives=d, macro_args=[("s", "literal", '"red"'), ("b", "literal", '"blu"'), ("t", "ty", "u16"), ("y", "literal", '"ye"')], macro_replace=True,
                      note="the definition is the body of a macro_rules! macro: spellings arrive as $x:literal fragments, a field type as $t:ty"))
    S.append(EnumSpec("DefT", [
        U("A", serialize=["a"]), U("Other", fields=[Field("String")], default=True), U("B"),
    ], derives=d, note="(d) default variant, tuple form, declared in the middle"))
    S.append(EnumSpec("DisAttr", [
        U("A"), U("H1", disabled=True, serialize=["h1", "hh"], flags_last=True), U("B", serialize=["b"]),
        U("H2", disabled=True, attr_style="trailing"), U("H3", disabled=True, to_string="h3", attr_style="split"), U("C"),
    ], derives=d, note="`disabled` after key = value items in the same attribute, with a trailing comma, split over attributes"))
    S.append(EnumSpec("Shared", [U("CmdStart"), U("CmdStop", fields=[Field("u8")]), U("CmdStatus", serialize=["cmd_status", "cmd_st"]), U("XCmd", serialize=["x_cmd", "y_cmd"])],
                      derives=d, serialize_all="snake_case", note="spellings sharing a long common prefix / a common suffix"))
    S.append(EnumSpec("DisDef", [
        U("A"), U("Unknown", fields=[Field("String")], default=True, disabled=True), U("B", serialize=["b"]),
    ], derives=d, note="a variant that is BOTH disabled and default: it must never be produced, unmatched input is an error"))
    S.append(EnumSpec("CaseOnly", [
        U("Mb", serialize=["mb"], to_string="MB"), U("Kb", serialize=["kb", "Kb"]), U("Gb", to_string="gB", serialize=["GB", "gb"]),
    ], derives=d, note="spellings of ONE variant that differ only in letter case (case-sensitive enum): each is a spelling"))
    S.append(EnumSpec("Esc", [
        U("Tab", serialize=["\t\t", "tab"]), U("Quote", to_string="a\"b"), U("Braces", to_string="${{name}}", fields=[Field("u8", name="id")], named=True),
        U("Bs", serialize=["back\\slash", "{{x}}"], fields=[Field("u8")]),
    ], derives=d, note="spellings that need escaping in Rust source, doubled braces on field-carrying variants"))
    S.append(EnumSpec("DefN", [
        U("On"), U("Off", aci=True), U("Rest", fields=[Field("Box<str>", name="o")], named=True, default=True),
    ], derives=d, note="(d) default variant, single named field, Box<str>"))
    S.append(EnumSpec("Dw", [
        U("A", fields=[Field("u8", default_expr="dw_seven()")], default_with="dw_seven"),
        U("B", fields=[Field("u16", name="w", default_with="dw_word", default_expr="dw_word()"), Field("bool", name="f"),
                       Field("bool", name="g", default_with="dw_flag", default_expr="dw_flag()")], named=True),
        U("C", fields=[Field("u8"), Field("u16")]),
    ], derives=d, note="(e) default_with on a single-field tuple variant and per named field"))
    S.append(EnumSpec("Gen", [
        U("One", fields=[Field("T")]), U("Two", fields=[Field("T", name="a"), Field("u8", name="b")], named=True), U("Three"),
    ], derives=d, generics=GEN, ty_args="<u16>", subst={"T": "u16"}, serialize_all="kebab-case", note="(f) generic enum"))
    S.append(EnumSpec("Lt", [
        U("Word", fields=[Field("&'a str")]), U("Unit"), U("Wd", fields=[Field("&'a str", name="w")], named=True),
    ], derives=d, generics="<'a>", ty_args="<'static>", subst={"'a": "'static"}, note="(f) lifetime parameter"))
    for st, nm in (("snake_case", "SaSnake"), ("SCREAMING-KEBAB-CASE", "SaScreamKebab"), ("title_case", "SaTitle"), ("camelCase", "SaCamel")):
        S.append(EnumSpec(nm, [U("DarkBlack"), U("HTTPServer"), U("Io2Go", fields=[Field("u8")]), U("KeepMe", serialize=["KeepMe"]),
                               U("DimGray", disabled=True)],
                          derives=d, serialize_all=st, note="(g) serialize_all=%s on multi-word identifiers, explicit spelling not re-cased" % st))
    S.append(EnumSpec("CiEnum", [
        U("Alpha"), U("Beta", aci=False), U("Gam", serialize=["g1", "Gam"]), U("Del", aci=True, aci_bare=True),
    ], derives=d, aci=True, note="(h) enum-level ascii_case_insensitive with a = false override"))
    S.append(EnumSpec("CiVar", [
        U("Alpha", aci=True, aci_bare=True), U("Beta"), U("Gamma", aci=True), U("Delta", aci=False),
    ], derives=d, note="(h) variant-level ascii_case_insensitive only"))
    S.append(EnumSpec("Zero", [U("A", disabled=True), U("B", disabled=True, serialize=["b"])], derives=d, note="(i) zero enabled variants"))
    S.append(EnumSpec("Empty", [], derives=d, note="(i) no variants at all"))
    S.append(EnumSpec("EmptySp", [U("Nil", serialize=[""]), U("Some", serialize=["s", " "]), U("Tab", to_string="\t")], derives=d,
                      note="(j) the empty string and whitespace as spellings"))
    S.append(EnumSpec("NonAscii", [U("Mass", serialize=["Maß"], aci=True), U("Eacute", to_string="é"), U("K", serialize=["k"], aci=True)],
                      derives=d, note="non-ASCII spellings"))
    return S


def random_specs(rng, n):
    out = []
    styles = [None] + casing.ALL_STYLE_STRINGS
    for k in range(n):
        nv = rng.randint(1, 6)
        ids = rand_idents(rng, nv)
        st = rng.choice(styles)
        aci = rng.random() < 0.3
        used = set()
        vs = []
        has_default = False
        for i, ident in enumerate(ids):
            v = Variant(ident=ident)
            r = rng.random()
            if r < 0.3:
                v.serialize = [rand_lit(rng, "s%d" % i), rand_lit(rng, "S%d_%d" % (k, i))][: rng.randint(1, 2)]
                if rng.random() < 0.3:
                    v.serialize.append(v.serialize[0].swapcase())      # a case-only twin of the same variant
            elif r < 0.45:
                v.to_string = rand_lit(rng, "t%d" % i)
            if rng.random() < 0.2:
                v.disabled = True
            if rng.random() < 0.3:
                v.aci = rng.random() < 0.5
            kind = rng.random()
            if kind < 0.25:
                v.fields = [Field(rng.choice(["u8", "u16", "bool", "String"])) for _ in range(rng.randint(1, 2))]
            elif kind < 0.4:
                v.fields = [Field(rng.choice(["u8", "u16", "bool"]), name="f%d" % j) for j in range(rng.randint(1, 2))]
                v.named = True
            if not has_default and rng.random() < 0.15:          # may coincide with `disabled`
                v.default = True
                v.fields = [Field("String")]
                v.named = False
                has_default = True
            vs.append(v)
        spec = EnumSpec("R%d" % k, vs, derives=["EnumString"], serialize_all=st, aci=aci, role="random", note="random")
        # enforce non-overlapping spellings (under folding, to stay inside the domain)
        seen = {}
        ok = True
        for v in spec.variants:
            if v.disabled or v.default:
                continue
            for sp in spellings(spec, v):
                key = fold_ascii(sp)
                if key in seen and seen[key] is not v:
                    ok = False
                seen[key] = v
        if ok and max_spelling_len(spec) <= 11:
            out.append(decorate(rng, spec))
    return out


def program(spec: EnumSpec, pname, tier, cap, ladder=False):
    N = n_for(spec, extra=1, cap=cap)
    src = (HELPERS if spec.name == "Dw" else "") + render_enum(spec) + "\n"
    helper = variant_index_fn(spec) + "\n" + payload_ok_fn(spec) + "\n" + oracle_fn(spec) + "\n" + check_parse_fn(spec) + "\n"
    hs = []
    body, ncov = from_str_harness(spec, N, utf8=True)
    # extra cover: the un-cased identifier of a variant with an explicit spelling is an input, and is rejected
    for v in spec.variants:
        if not v.disabled and not v.default and (v.serialize or v.to_string) and v.ident not in spellings(spec, v) and len(v.ident) <= N \
                and parse_oracle(spec, v.ident) is None:
            body = body.replace("    check_parse(&r, o, ss.bytes());",
                                '    vcover!(beq(ss.bytes(), %s), "input is the un-cased identifier of %s, which has an explicit spelling");\n    check_parse(&r, o, ss.bytes());' % (rust_bytes(v.ident.encode()), v.ident), 1)
            ncov += 1
            break
    fns = ["<%s as FromStr>::from_str" % spec.name, "<%s as TryFrom<&str>>::try_from" % spec.name]
    hs.append(Harness(name="h_from_str_utf8_n%d" % N, body=body, unwind=N + 2, kind="symbolic",
                      desc="from_str(s) and try_from(s) vs reference parser for every valid UTF-8 s of <= %d bytes" % N,
                      bound={"N_bytes": N, "alphabet": "all valid UTF-8", "unwind": N + 2}, min_covers=ncov, functions=fns))
    ws = witness_inputs(spec, limit=(16 if tier == "quick" else 48))
    for ci in range(0, len(ws), 4):
        chunk = ws[ci:ci + 4]
        wb = []
        for w in chunk:
            wb.append("    { let ss = SymStr::<16>::fixed(%s); let s = ss.as_str(); let o = oracle(ss.bytes());" % rust_bytes(w.encode()))
            wb.append("      let r = <%s as core::str::FromStr>::from_str(s); check_parse(&r, o, ss.bytes()); core::mem::forget(r);" % spec.ty())
            wb.append("      let t = <%s as core::convert::TryFrom<&str>>::try_from(s); check_parse(&t, o, ss.bytes()); core::mem::forget(t); }" % spec.ty())
        hs.append(Harness(name="h_from_str_witness_%d" % (ci // 4), body="\n".join(wb), unwind=20, kind="witness",
                          desc="fixed inputs derived from the spellings (case flips, identifiers, outer whitespace, one-char edits, look-alikes): %s" % ", ".join(repr(w) for w in chunk),
                          bound={"inputs": chunk}, functions=fns))
    hs.append(Harness(name="h_e2_replay", native_only=True, desc="replay vehicle for E2 models: any valid UTF-8 input up to 64 bytes",
                      body="    let ss = SymStr::<64>::utf8();\n    let r = <%s as core::str::FromStr>::from_str(ss.as_str());\n    check_parse(&r, oracle(ss.bytes()), ss.bytes());" % spec.ty()))
    return Program(name=pname, enum_src=src, helper_src=helper, harnesses=hs, summary=render_enum(spec), role=spec.role, note=spec.note)


specs_cache = {}


REPO_TEST_SRC = """pub fn tv_test_default() -> u8 { 1 }
pub fn tv_string_test() -> String { String::from("This is a string test") }
pub fn tv_to_white() -> String { String::from("white-test") }
"""


def repo_test_specs():
    """enums and literal expectations of strum_tests/tests/from_str.rs (names prefixed Tv to avoid clashes)"""
    color = EnumSpec("TvColor", [
        U("Red"), U("Blue", fields=[Field("usize", name="hue")], named=True), U("Yellow", serialize=["y", "yellow"]),
        U("Green", fields=[Field("String")], default=True), U("Purple", to_string="purp"),
        U("Black", serialize=["blk", "Black"], aci=True, aci_bare=True),
        U("Pink", fields=[Field("u8", name="test_no_default", default_with="tv_test_default"), Field("String", name="string_test", default_with="tv_string_test")], named=True),
        U("White", fields=[Field("String")], default_with="tv_to_white")])
    week = EnumSpec("TvWeek", [U(d) for d in ("Sunday", "Monday", "Tuesday", "Wednesday", "Thursday", "Friday", "Saturday")])
    ci = EnumSpec("TvCaseInsensitiveEnum", [U("NoAttr"), U("NoCaseInsensitive", aci=False), U("CaseInsensitive", aci=True)], aci=True)
    bright = EnumSpec("TvBrightness", [U("DarkBlack"), U("Dim", fields=[Field("usize", name="glow")], named=True), U("BrightWhite", serialize=["Bright"])],
                      serialize_all="snake_case")
    fns_ = ["tv_test_default", "tv_string_test", "tv_to_white"]
    return [
        (color, [("Red", "Red"), ("Blue", "Blue"), ("y", "Yellow"), ("yellow", "Yellow"), ("purp", "Purple"), ("not found", ("default", "Green")),
                 ("BLK", "Black"), ("bLaCk", "Black"), ("Pink", "Pink"), ("White", "White")], fns_),
        (week, [("Humpday", None), ("Sunday", "Sunday"), ("Monday", "Monday"), ("Saturday", "Saturday")], []),
        (ci, [("noattr", "NoAttr"), ("NoCaseInsensitive", "NoCaseInsensitive"), ("nocaseinsensitive", None), ("CaseInsensitive", "CaseInsensitive"),
              ("caseinsensitive", "CaseInsensitive")], []),
        (bright, [("dark_black", "DarkBlack"), ("dim", "Dim"), ("Bright", "BrightWhite")], []),
    ]


def e2(run, programs, tier, seed, known):
    import e2str
    specs = [s for s in specs_cache.get((tier, seed), []) if not s.generics]      # generic / lifetime enums: E1 only
    return e2str.run_e2(run, programs, specs, HELPERS, ["dw_seven", "dw_word", "dw_flag"], lambda sp: None, known,
                        validation=(REPO_TEST_SRC, repo_test_specs()))


def build(tier, seed):
    rng = mk_rng(seed, "C01")
    cap = 12 if tier == "quick" else 16
    specs = pivot() + random_specs(rng, 2 if tier == "quick" else 14)
    programs = [program(s, "p%03d" % i, tier, cap) for i, s in enumerate(specs)]
    specs_cache[(tier, seed)] = specs
    return {
        "programs": programs,
        "harness_timeout": 600 if tier == "quick" else 2400,
        "bounds": {"N": "E1: longest spelling + 1 bytes per program, capped at %d; full UTF-8.  E2: input of ANY length (SMT strings) for the variant identity" % cap,
                   "payload types": "u8/u16/bool/String/&str/Box<str>"},
        "assumptions": [
            "program dimension enumerated (pivot + seeded random corpus with non-overlapping spellings)",
            "valid_utf8 is exact (lemma checked in the thorough tier of C12)",
            "strings longer than N bytes are outside the E1 claim",
            "multi-field tuple variant with variant-level default_with is outside the documented domain and not generated",
        ],
        "outside": ["inputs longer than N bytes", "enum definitions outside the corpus"],
    }
