"""C13 - EnumIs predicates partition the variants; EnumTryAs returns payloads unchanged.

sym: variant selector over ALL declared variants (incl. disabled), every payload value, the values written
through try_as_*_mut.  Method names come from refsem (snake_case with digits split off): a wrong name is a
compile error in the API region and is reported with the diagnostic."""
import copy
from gen import *
from framework import Harness, Program

GEN = "<T: Default + Clone + PartialEq + core::fmt::Debug>"


def U(ident, **kw):
    return Variant(ident=ident, **kw)


def pivot():
    S = []
    S.append(EnumSpec("Shape", [
        U("Unit"), U("Http2Server", fields=[Field("u8")]), U("Pair", fields=[Field("u16"), Field("bool")]),
        U("Named", fields=[Field("u8", name="x"), Field("u32", name="y")], named=True),
        U("Off", disabled=True, fields=[Field("u8")]), U("Triple", fields=[Field("u8"), Field("u16"), Field("u32")]),
        U("IoError2"), U("Empty", parens=True),
    ], note="all kinds, 0..3 tuple fields of distinct types, digits/acronyms in identifiers, disabled tuple variant, empty tuple variant"))
    S.append(EnumSpec("DisAttr", [U("A", fields=[Field("u8")]), U("H1", disabled=True, message="m", flags_last=True, fields=[Field("u8")]),
                                  U("B"), U("H2", disabled=True, attr_style="trailing"), U("C", fields=[Field("u16"), Field("u8")]),
                                  U("H3", disabled=True, message="m3", fields=[Field("u16")]), U("H4", disabled=True, detailed_message="d", attr_style="split"),
                                  U("H5", disabled=True, props=[[("pk", "v")]], fields=[Field("u8")])],
                      note="`disabled` before / after a key = value item in the same attribute, with a trailing comma, split over attributes, next to props"))
    S.append(EnumSpec("Stems", [U("Lock", fields=[Field("u8")]), U("LockMutex", fields=[Field("u16")]), U("Cache", fields=[Field("u8")]), U("CacheRefresh", fields=[Field("u32")]),
                                U("Gene"), U("GeneMutation", fields=[Field("u8"), Field("u16")]), U("Mut", fields=[Field("u8")]), U("Ref", fields=[Field("bool")]),
                                U("Try", fields=[Field("u8")]), U("Is")],
                      note="identifiers that extend one another by a word starting with Ref/Mut, and identifiers equal to the method-name affixes (no two method names collide)"))
    S.append(EnumSpec("OneEnabled", [U("Only", fields=[Field("u8")]), U("Off", disabled=True), U("Off2", disabled=True, fields=[Field("u8")])],
                      note="exactly ONE enabled variant next to disabled ones (a single-arm shortcut must still say false for the disabled values)"))
    S.append(EnumSpec("OneUnit", [U("Solo")], note="a true single-variant enum"))
    S.append(EnumSpec("Digits", [U("I2c", fields=[Field("u8")]), U("Ipv4addr"), U("V1beta2", fields=[Field("u16"), Field("u8")]), U("Sha256sum"), U("X9"), U("A1B2")],
                      note="numbers followed by a LOWER-case letter inside the identifier (is_i_2c, is_ipv_4addr, is_v_1beta_2, ...)"))
    S.append(EnumSpec("Big257", [U("V%d" % i, disabled=(i == 100)) for i in range(258)],
                      note="257 enabled variants (+1 disabled): any 8-bit variant ordinal wraps"))
    S.append(EnumSpec("Lower", [U("read", fields=[Field("u8")]), U("reset"), U("rrc", fields=[Field("u16"), Field("u8")]), U("write"), U("r2d2")],
                      note="C-style lower-case identifiers, several starting with `r`"))
    S.append(EnumSpec("G", [U("A", fields=[Field("T")]), U("B", fields=[Field("T"), Field("u8")]), U("C"), U("D", fields=[Field("T", name="t")], named=True)],
                      generics=GEN, ty_args="<u16>", subst={"T": "u16"}, note="generic payloads"))
    S.append(EnumSpec("Lt", [U("S", fields=[Field("&'a str")]), U("N", fields=[Field("u8")]), U("U")], generics="<'a>", ty_args="<'static>",
                      subst={"'a": "'static"}, note="lifetime parameter"))
    S.append(EnumSpec("AllOff", [U("A", disabled=True), U("B", disabled=True, fields=[Field("u8")])], note="only disabled variants: no methods at all"))
    S.append(EnumSpec("Same", [U("A", fields=[Field("u8"), Field("u8")]), U("B", fields=[Field("u8"), Field("u8")]), U("AB")],
                      note="two variants with identical field types (field order / variant mix-up visible only with distinct values)"))
    return S


def random_specs(rng, n):
    out = []
    tys = ["u8", "u16", "u32", "bool", "i8"]
    for k in range(n):
        vs = []
        for ident in rand_idents(rng, rng.randint(1, 6)):
            v = Variant(ident=ident, disabled=rng.random() < 0.15)
            r = rng.random()
            if r > 0.9:
                v.parens = True
            elif r > 0.85:
                v.braces = True
            if r < 0.5:
                v.fields = [Field(rng.choice(tys)) for _ in range(rng.randint(1, 3))]
            elif r < 0.65:
                v.fields = [Field(rng.choice(tys), name="f%d" % j) for j in range(rng.randint(1, 2))]
                v.named = True
            vs.append(v)
        out.append(decorate(rng, EnumSpec("R%d" % k, vs, role="random", note="random")))
    return out


def program(spec: EnumSpec, pname, tier):
    spec = copy.deepcopy(spec)
    spec.derives = ["EnumIs", "EnumTryAs"]
    spec.std_derives = ["Debug", "Clone", "PartialEq"]
    E = spec.ty()
    nv = len(spec.variants)
    en = [(i, v) for i, v in enumerate(spec.variants) if not v.disabled]
    src = render_enum(spec) + "\n"
    helper = variant_index_fn(spec) + "\n"
    lines = []
    lines.append("    let k = %s;" % ("nd_u8()" if nv < 256 else "nd_u16()"))
    lines.append("    vassume((k as usize) < %d);" % nv)
    # payload values: one symbolic value per (variant, field)
    cons = []
    for i, v in enumerate(spec.variants):
        exprs = []
        for j, f in enumerate(v.fields):
            ct = concrete_ty(spec, f.ty)
            if ct in INT_TYPES or ct == "bool":
                lines.append("    let p_%d_%d: %s = %s;" % (i, j, ct, nd(ct)))
            else:
                lines.append("    let p_%d_%d: %s = %s;" % (i, j, ct, payload_expr(spec, f)))
            exprs.append("p_%d_%d.clone()" % (i, j))
        cons.append("        %d => %s," % (i, construct(spec, v, exprs)))
    lines.append("    let mut e: %s = match k {\n%s\n        _ => unreachable!(),\n    };" % (E, "\n".join(cons)))
    lines.append('    vcover!(k as usize == %d, "last declared variant");' % (nv - 1))
    ncov = 1
    if any(v.disabled for v in spec.variants):
        lines.append("    vcover!(%s, \"a disabled variant's value\");" % " || ".join("k == %d" % i for i, v in enumerate(spec.variants) if v.disabled))
        ncov += 1
    # is_* partition
    if en:
        lines.append("    let is: [bool; %d] = [%s];" % (len(en), ", ".join("e.is_%s()" % casing.snake_method(v.ident) for _, v in en)))
        lines.append("    let mut n_true = 0usize; let mut which = usize::MAX;")
        lines.append("    let mut q = 0; while q < %d { if is[q] { n_true += 1; which = q; } q += 1; }" % len(en))
        lines.append("    let want: usize = match k { %s _ => usize::MAX };" % " ".join("%d => %d," % (i, q) for q, (i, v) in enumerate(en)))
        lines.append('    if want == usize::MAX { assert!(n_true == 0, "an is_*() predicate is true for a disabled variant"); }')
        lines.append('    else { assert!(n_true == 1, "not exactly one is_*() predicate is true"); assert!(which == want, "the true is_*() predicate is not the one named after the value\'s variant"); }')
    # methods that must NOT be generated (disabled variants): a fallback trait is shadowed by an inherent method if one exists
    dis = [(i, v) for i, v in enumerate(spec.variants) if v.disabled]
    if dis:
        fb = ["pub trait NoSuchMethod: Sized {"]
        for i, v in dis:
            sn = casing.snake_method(v.ident)
            fb.append("    fn is_%s(&self) -> bool { false }" % sn)
            fb.append("    fn try_as_%s(self) -> Option<()> { None }" % sn)
            fb.append("    fn try_as_%s_ref(&self) -> Option<()> { None }" % sn)
            fb.append("    fn try_as_%s_mut(&mut self) -> Option<()> { None }" % sn)
            lines.append('    assert!(!e.is_%s(), "an is_*() predicate exists for a disabled variant and is true");' % sn)
            if v.kind == "tuple":
                lines.append('    assert!(e.try_as_%s_ref().is_none() && e.clone().try_as_%s().is_none() && e.try_as_%s_mut().is_none(), "a try_as_*() accessor exists for a disabled variant and returns Some");' % (sn, sn, sn))
        fb.append("}")
        fb.append("impl NoSuchMethod for %s {}" % E)
        helper += "\n".join(fb) + "\n"
    # try_as_*
    for i, v in en:
        if v.kind != "tuple":
            continue
        sn = casing.snake_method(v.ident)
        nf = len(v.fields)
        cts = [concrete_ty(spec, f.ty) for f in v.fields]
        eq_ref = " && ".join("*r%d == p_%d_%d" % (j, i, j) for j in range(nf)) or "true"
        pat = "(" + ", ".join("r%d" % j for j in range(nf)) + ")" if nf != 1 else "r0"
        if nf == 0:
            pat = "()"
        lines.append("    match e.try_as_%s_ref() {" % sn)
        lines.append('        Some(%s) => { assert!(k == %d, "try_as_%s_ref() is Some for another variant"); assert!(%s, "try_as_%s_ref() does not carry the fields in order"); }' % (pat, i, sn, eq_ref, sn))
        lines.append('        None => { assert!(k != %d, "try_as_%s_ref() is None for its own variant"); }' % (i, sn))
        lines.append("    }")
        eq_val = " && ".join("r%d == p_%d_%d" % (j, i, j) for j in range(nf)) or "true"
        lines.append("    match e.clone().try_as_%s() {" % sn)
        lines.append('        Some(%s) => { assert!(k == %d, "try_as_%s() is Some for another variant"); assert!(%s, "try_as_%s() does not carry the fields in order"); }' % (pat, i, sn, eq_val, sn))
        lines.append('        None => { assert!(k != %d, "try_as_%s() is None for its own variant"); }' % (i, sn))
        lines.append("    }")
        # mutation through _mut
        muts = []
        news = []
        for j, ct in enumerate(cts):
            if ct in INT_TYPES or ct == "bool":
                lines.append("    let w_%d_%d: %s = %s;" % (i, j, ct, nd(ct)))
                muts.append("*r%d = w_%d_%d;" % (j, i, j))
                news.append("w_%d_%d" % (i, j))
            else:
                news.append("p_%d_%d.clone()" % (i, j))
        lines.append("    let before = e.clone();")
        lines.append("    match e.try_as_%s_mut() {" % sn)
        lines.append('        Some(%s) => { assert!(k == %d, "try_as_%s_mut() is Some for another variant"); %s }' % (pat, i, sn, " ".join(muts)))
        lines.append('        None => { assert!(k != %d, "try_as_%s_mut() is None for its own variant"); }' % (i, sn))
        lines.append("    }")
        lines.append('    if k == %d { assert!(e == %s, "a write through try_as_%s_mut() is not visible in place / changed something else"); }' % (i, construct(spec, v, news), sn))
        lines.append('    else { assert!(e == before, "try_as_%s_mut() on another variant changed the value"); }' % sn)
    body = "\n".join(lines)
    fns = ["%s::is_%s" % (spec.name, casing.snake_method(v.ident)) for _, v in en] + \
          ["%s::try_as_%s{,_ref,_mut}" % (spec.name, casing.snake_method(v.ident)) for _, v in en if v.kind == "tuple"]
    api = ["pub fn api_method_names(e: &%s, m: &mut %s) {" % (E, E)]
    for _, v in en:
        sn = casing.snake_method(v.ident)
        api.append("    let _: bool = e.is_%s();" % sn)
        if v.kind == "tuple":
            api.append("    let _ = e.try_as_%s_ref(); let _ = m.try_as_%s_mut(); let _ = e.clone().try_as_%s();" % (sn, sn, sn))
    api.append("}")
    extra_h = []
    if len(en) > 255:
        ids = [v.ident for _, v in en]
        pairs = [(ids[0], ids[256]), (ids[256], ids[0]), (ids[256], ids[256]), (ids[255], ids[255]), (ids[1], ids[-1]), (ids[-1], ids[1]), (ids[0], ids[0])]
        wb = []
        for a, b in pairs:
            wb.append('    assert!(%s::%s.is_%s() == %s, "is_*() partition broken between variants whose ordinals differ by 256");' % (
                spec.name, a, casing.snake_method(b), "true" if a == b else "false"))
        extra_h.append(Harness(name="h_is_big_witness", body="\n".join(wb), unwind=4, kind="witness",
                               desc="concrete rows of the is_*() matrix around the 8-bit boundary: %s" % ", ".join("%s.is_%s" % p for p in pairs),
                               bound={"pairs": pairs}, functions=["%s::is_*" % spec.name]))
    hs = extra_h + [Harness(name="h_is_try_as", body=body, unwind=max(12, len(en) + 3), kind="symbolic",
                  desc="for every declared variant with every payload value: exactly one is_*() (none for disabled); try_as_*/_ref/_mut Some iff own variant, fields in order, writes through _mut visible in place",
                  bound={"k": "all %d declared variants" % nv, "payloads": "every value of u8/u16/u32/bool"}, min_covers=ncov, functions=fns)]
    return Program(name=pname, enum_src=src, helper_src=helper, api_src="\n".join(api), harnesses=hs, summary=render_enum(spec), role=spec.role, note=spec.note)


def build(tier, seed):
    rng = mk_rng(seed, "C13")
    specs = pivot() + random_specs(rng, 6 if tier == "quick" else 24)
    programs = [program(s, "p%03d" % i, tier) for i, s in enumerate(specs)]
    return {
        "programs": programs,
        "harness_timeout": 300 if tier == "quick" else 1200,
        "bounds": {"selector": "every declared variant", "payloads": "full width"},
        "assumptions": ["program dimension enumerated", "method names are refsem's snake_case-with-digits-split; a wrong generated name is a build error of the harness and reported as machinery error unless located in the enum/API region"],
        "outside": ["enums outside the corpus"],
    }
