"""C12 - ascii_case_insensitive folds ASCII letters only, only for the variants it covers.

sym: s = any valid UTF-8 string of <= N bytes, N = longest spelling + 3, so a 3-byte look-alike
(Kelvin sign U+212A, ...) substituted for a 1-byte letter is still inside the bound.
Oracle: byte-wise fold of A-Z only, flag = variant attribute if present else enum attribute."""
from strgen import *
import props.c16 as c16


def U(ident, **kw):
    return Variant(ident=ident, **kw)


def pivot():
    d = ["EnumString"]
    S = []
    S.append(EnumSpec("OnAll", [U("K", serialize=["k"]), U("S1", serialize=["s1"]), U("Ii", serialize=["i"], aci=False),
                                U("Xy", aci=True, aci_bare=True), U("Zz", aci=True)],
                      derives=d, aci=True, note="enum flag on x variant flag {absent, = false, bare, = true}; 1-letter spellings k/s/i"))
    S.append(EnumSpec("OffAll", [U("K", serialize=["k"], aci=True, aci_bare=True), U("S1", serialize=["s1"], aci=True),
                                 U("Ab", serialize=["ab"]), U("Cd", serialize=["cD"], aci=False)],
                      derives=d, aci=False, note="enum flag off x variant flag {bare, = true, absent, = false}"))
    S.append(EnumSpec("NonAscii", [U("Mass", serialize=["Maß"], aci=True), U("E1", serialize=["é1"], aci=True),
                                   U("Plain", serialize=["Été"])],
                      derives=d, note="case-insensitive spellings with non-ASCII letters (ß, é must match exactly)"))
    S.append(EnumSpec("UpperNonAscii", [U("Uber", serialize=["\u00dcber"], aci=True), U("Ecole", serialize=["\u00c9a"], aci=True),
                                        U("Kel", serialize=["\u212a1"], aci=True), U("Low", serialize=["\u00fcb"], aci=True)],
                      derives=d, note="case-insensitive spellings containing non-ASCII UPPER-case letters (U+00DC, U+00C9, Kelvin sign): they fold to nothing"))
    S.append(EnumSpec("CiToString", [U("Halt", to_string="halt", aci=True), U("Lo", to_string="Lo", serialize=["low"], aci=True, aci_bare=True), U("Go", to_string="GO")],
                      derives=d, note="case-insensitive variants whose spelling is a to_string literal (alone and next to a serialize)"))
    S.append(EnumSpec("CiToStringEnum", [U("Halt", to_string="halt"), U("Run", to_string="Run", aci=False), U("Up")], derives=d, aci=True,
                      note="enum-level flag over to_string spellings"))
    S.append(EnumSpec("Digits", [U("N1", serialize=["123"], aci=True), U("N2", serialize=["4-5"]), U("Mix", serialize=["a1B2"], aci=True)],
                      derives=d, note="digits only / punctuation / mixed"))
    S.append(EnumSpec("Sa", [U("DarkBlack"), U("KissMe", aci=False), U("SkI")], derives=d, aci=True, serialize_all="snake_case",
                      note="enum flag with serialize_all re-cased identifiers"))
    S.append(EnumSpec("DefCi", [U("Ok", aci=True), U("No"), U("Rest", fields=[Field("String")], default=True)], derives=d,
                      note="case-insensitive next to a default catch-all"))
    return S


def covers_for(spec, N):
    out = []
    for i, v in enumerate(spec.variants):
        if v.disabled or v.default:
            continue
        sp = spellings(spec, v)[0]
        b = sp.encode()
        if is_ci(spec, v) and sp.swapcase() != sp and len(b) <= N:
            out.append('    vcover!(o == Some(%d) && !beq(ss.bytes(), %s), "matches %s only after ASCII case folding");' % (i, rust_bytes(b), v.ident))
            break
    for i, v in enumerate(spec.variants):
        if v.disabled or v.default:
            continue
        sp = spellings(spec, v)[0]
        b = sp.encode()
        if not is_ci(spec, v) and sp.swapcase() != sp and parse_oracle(spec, sp.swapcase()) is None and len(b) <= N:
            out.append('    vcover!(beq_fold_ascii(ss.bytes(), %s) && !beq(ss.bytes(), %s) && o.is_none(), "case flip of case-sensitive %s is an input and is rejected");' % (rust_bytes(b), rust_bytes(b), v.ident))
            break
    # one look-alike inside the bound
    subs = {"k": "K", "K": "K", "s": "ſ", "S": "ſ", "i": "ı", "I": "İ"}
    done = False
    for v in spec.variants:
        if v.disabled or v.default or not is_ci(spec, v):
            continue
        for sp in spellings(spec, v):
            for j, ch in enumerate(sp):
                if ch in subs:
                    w = (sp[:j] + subs[ch] + sp[j + 1:]).encode()
                    if len(w) <= N and not done:
                        out.append('    vcover!(beq(ss.bytes(), %s), "Unicode look-alike of %s is inside the bound");' % (rust_bytes(w), v.ident))
                        done = True
    return out


LEMMA = """    // lemma: the hand-written validator equals core::str::from_utf8(..).is_ok() on every slice of <= 5 bytes
    let b = nd_bytes::<5>();
    let len = nd_usize();
    vassume(len <= 5);
    let v = valid_utf8(&b[..len]);
    let c = core::str::from_utf8(&b[..len]).is_ok();
    vcover!(v && len == 4 && b[0] >= 0xF0, "a 4-byte sequence is accepted");
    vcover!(!v && len == 3, "a 3-byte slice is rejected");
    assert!(v == c, "valid_utf8 disagrees with core::str::from_utf8");
"""


def program(spec, pname, tier, cap):
    N = n_for(spec, extra=3, cap=cap, floor=4)
    src = render_enum(spec) + "\n"
    helper = variant_index_fn(spec) + "\n" + payload_ok_fn(spec) + "\n" + oracle_fn(spec) + "\n" + check_parse_fn(spec) + "\n"
    body, ncov = from_str_harness(spec, N, utf8=True)
    extra = covers_for(spec, N)
    body = body.replace("    check_parse(&r, o, ss.bytes());", "\n".join(extra) + "\n    check_parse(&r, o, ss.bytes());", 1)
    fns = ["<%s as FromStr>::from_str" % spec.name, "str::eq_ignore_ascii_case"]
    hs = [Harness(name="h_ci_utf8_n%d" % N, body=body, unwind=N + 2, kind="symbolic",
                  desc="from_str(s) vs ASCII-only-folding reference parser, every valid UTF-8 s of <= %d bytes (longest spelling + 3)" % N,
                  bound={"N_bytes": N, "alphabet": "all valid UTF-8"}, min_covers=ncov + len(extra), functions=fns)]
    ws = [w for w in c16.lookalikes(spec) if len(w.encode()) <= 16][: (8 if tier == "quick" else 40)]
    for ci in range(0, len(ws), 3):
        chunk = ws[ci:ci + 3]
        wb = []
        for w in chunk:
            wb.append("    { let ss = SymStr::<16>::fixed(%s); let r = <%s as core::str::FromStr>::from_str(ss.as_str()); check_parse(&r, oracle(ss.bytes()), ss.bytes()); core::mem::forget(r); }" % (rust_bytes(w.encode()), spec.ty()))
        hs.append(Harness(name="h_ci_witness_%d" % (ci // 3), body="\n".join(wb), unwind=18, kind="witness",
                          desc="fixed look-alike / case-flip inputs derived from the spellings: %s" % ", ".join(repr(w) for w in chunk),
                          bound={"inputs": chunk}, functions=fns))
    hs.append(Harness(name="h_e2_replay", native_only=True, desc="replay vehicle for E2 models: any valid UTF-8 input up to 64 bytes",
                      body="    let ss = SymStr::<64>::utf8();\n    let r = <%s as core::str::FromStr>::from_str(ss.as_str());\n    check_parse(&r, oracle(ss.bytes()), ss.bytes());" % spec.ty()))
    return Program(name=pname, enum_src=src, helper_src=helper, harnesses=hs, summary=render_enum(spec), role=spec.role, note=spec.note)


specs_cache = {}


def e2(run, programs, tier, seed, known):
    import e2str
    specs = [s for s in specs_cache.get((tier, seed), []) if not s.generics]
    return e2str.run_e2(run, programs, specs, "", [], lambda sp: None, known)


def build(tier, seed):
    rng = mk_rng(seed, "C12")
    cap = 12 if tier == "quick" else 16
    import props.c01 as c01
    rnd = [s for s in c01.random_specs(rng, 4 if tier == "quick" else 20) if any(is_ci(s, v) for v in enabled(s))][: (2 if tier == "quick" else 10)]
    specs = pivot() + rnd
    programs = [program(s, "p%03d" % i, tier, cap) for i, s in enumerate(specs)]
    specs_cache[(tier, seed)] = specs
    programs.append(Program(name="plemma", enum_src="", harnesses=[
        Harness(name="lemma_valid_utf8", body=LEMMA, unwind=8, kind="lemma",
                desc="valid_utf8(b) == core::str::from_utf8(b).is_ok() for every b of <= 5 bytes (justifies the SymStr assumption)",
                bound={"bytes": 5}, min_covers=2, functions=["support::valid_utf8", "core::str::from_utf8"])],
        summary="(support lemma)", note="UTF-8 validator lemma"))
    return {
        "programs": programs,
        "harness_timeout": 600 if tier == "quick" else 2400,
        "bounds": {"N": "longest spelling + 3 bytes per program, capped at %d; full UTF-8 (non-ASCII negatives are the point)" % cap},
        "assumptions": [
            "program dimension enumerated",
            "witness harnesses have no free variable; they claim nothing beyond the listed inputs and are implied by the symbolic query on a correct tree",
            "a change that routes the comparison through Unicode tables (str::to_lowercase) is not decidable symbolically here; the witness queries are what refutes it",
        ],
        "outside": ["inputs longer than N bytes", "enums outside the corpus"],
    }
