"""C06 - from_repr(d) is Some(V) iff d is the discriminant rustc gives enabled variant V.

sym: d over the FULL discriminant type.  Oracle: for field-less enums the
compiler's own cast `E::V as R`; for data-carrying enums refsem's table (rustc
rule over all declared variants)."""
from gen import *
from framework import Harness, Program


def _enum_harness(spec: EnumSpec, pname, role, consts=""):
    R = spec.repr if spec.repr in INT_TYPES else "usize"
    fieldless = all(v.kind == "unit" for v in spec.variants)
    discs = discriminants(spec)
    en = [(i, v) for i, v in enumerate(spec.variants) if not v.disabled]
    lines = []
    lines.append("    let d: %s = %s;" % (R, nd(R)))
    lines.append("    let r = %s::from_repr(d);" % spec.ty().replace("<", "::<", 1))
    # oracle
    conds = []
    for i, v in en:
        if fieldless:
            conds.append("if d == (%s::%s as %s) { Some(%du32) }" % (spec.ty().replace("<", "::<", 1), v.ident, R, i))
        else:
            conds.append("if d == %s { Some(%du32) }" % (int_lit(discs[i], R), i))
    if conds:
        lines.append("    let exp: Option<u32> = " + " else ".join(conds) + " else { None };")
    else:
        lines.append("    let exp: Option<u32> = None;")
    covers = 0
    if en:
        lines.append('    vcover!(r.is_some(), "from_repr returns Some");')
        covers += 1
        # each enabled variant reachable
        for i, v in en[:3]:
            lines.append('    vcover!(exp == Some(%d), "d is the discriminant of %s");' % (i, v.ident))
            covers += 1
    lo, hi = RANGE[R]
    if len(en) < hi - lo + 1:
        lines.append('    vcover!(r.is_none(), "from_repr returns None");')
        covers += 1
    lines.append("    match (&r, exp) {")
    lines.append('        (Some(v), Some(i)) => { assert!(vidx(v) as u32 == i, "from_repr(d) returned a variant whose discriminant is not d"); assert!(payload_ok(v), "from_repr payload is not Default::default()"); }')
    lines.append("        (None, None) => {}")
    lines.append('        (Some(_), None) => { assert!(false, "from_repr(d) is Some although no enabled variant has discriminant d"); }')
    lines.append('        (None, Some(_)) => { assert!(false, "from_repr(d) is None although an enabled variant has discriminant d"); }')
    lines.append("    }")
    h = Harness(name="h_from_repr_all_d", body="\n".join(lines), kind="symbolic",
                desc="from_repr(d) vs discriminant oracle for every d: %s (%s)" % (R, "compiler cast E::V as R" if fieldless else "refsem table"),
                bound={"d": "all of %s" % R}, min_covers=covers,
                functions=["%s::from_repr" % spec.name])
    api = ""
    if fieldless and en:
        # const-callability: from_repr must be usable in const context when no variant carries data
        i, v = en[-1]
        api = "pub const K_%s: Option<%s> = %s::from_repr(%s);\n" % (
            spec.name.upper(), spec.ty(), spec.ty().replace("<", "::<", 1), int_lit(discs[i], R))
    src = consts + render_enum(spec) + "\n"
    helper = variant_index_fn(spec) + "\n" + payload_ok_fn(spec) + "\n"
    hs = [h]
    if fieldless and en:
        # round trip through the cast for a symbolic variant selector
        b = ["    let k = nd_u8();", "    vassume((k as usize) < %d);" % len(en)]
        b.append("    let v = match k { " + " ".join("%d => %s::%s," % (j, spec.ty().replace("<", "::<", 1), v.ident) for j, (i, v) in enumerate(en)) + " _ => unreachable!() };")
        b.append('    vcover!(k == %d, "last enabled variant");' % (len(en) - 1))
        b.append("    let back = %s::from_repr(v.clone() as %s);" % (spec.ty().replace("<", "::<", 1), R))
        b.append('    assert!(back == Some(v), "from_repr(v as R) != Some(v)");')
        hs.append(Harness(name="h_cast_round_trip", body="\n".join(b), kind="symbolic",
                          desc="E::from_repr(v as R) == Some(v) for every enabled v",
                          bound={"k": "all enabled variants"}, min_covers=1,
                          functions=["%s::from_repr" % spec.name]))
    return Program(name=pname, enum_src=src, helper_src=helper, harnesses=hs, summary=render_enum(spec), role=role, api_src=api, note=spec.note)


def U(ident, **kw):
    return Variant(ident=ident, **kw)


def pivot():
    S = []
    d = ["FromRepr"]
    std = ["Debug", "Clone", "Copy", "PartialEq"]
    # 1. the documented example shape + a disabled variant before an implicit one (F2 shape)
    S.append(EnumSpec("Color", [U("Red"), U("Blue", disc="5", disc_val=5), U("Hidden", disabled=True), U("Green"),
                                U("Yellow", disc="200", disc_val=200)], derives=d, std_derives=std, repr="u8",
                      note="disabled variant between explicit and implicit discriminants"))
    # 2. disabled first
    S.append(EnumSpec("DFirst", [U("Off", disabled=True), U("A"), U("B"), U("C")], derives=d, std_derives=std, repr="u16",
                      note="disabled first"))
    # 3. two adjacent disabled in the middle, no repr (usize)
    S.append(EnumSpec("DAdj", [U("A"), U("H1", disabled=True), U("H2", disabled=True), U("B"), U("C")], derives=d,
                      std_derives=std, note="two adjacent disabled, no repr"))
    # 4. disabled last and disabled with own explicit value
    S.append(EnumSpec("DOwn", [U("A", disc="3", disc_val=3), U("H", disabled=True, disc="10", disc_val=10), U("B"),
                               U("Z", disabled=True)], derives=d, std_derives=std, repr="u32",
                      note="disabled with explicit discriminant; disabled last"))
    # 5. signed repr, negative, descending, gapped
    S.append(EnumSpec("Neg", [U("M", disc="-3", disc_val=-3), U("N"), U("H", disabled=True), U("O"),
                              U("Lo", disc="-128", disc_val=-128), U("Hi", disc="127", disc_val=127)],
                      derives=d, std_derives=std, repr="i8", note="i8 with MIN/MAX and negative values"))
    S.append(EnumSpec("Desc", [U("A", disc="30", disc_val=30), U("B", disc="20", disc_val=20), U("C", disc="10", disc_val=10),
                               U("D")], derives=d, std_derives=std, repr="i16", note="descending"))
    # 6. expression-valued discriminants
    S.append(EnumSpec("Expr", [U("A", disc="1 << 3", disc_val=8), U("B"), U("C", disc="BASE_EXPR + 2", disc_val=12),
                               U("H", disabled=True), U("D")], derives=d, std_derives=std, repr="u8",
                      note="expression-valued discriminants"))
    S.append(EnumSpec("ViaMacro", [U("A", disc="$base * 2", disc_val=6), U("B"), U("H", disabled=True), U("C", disc="$base * 4 + $off", disc_val=15), U("D", disc="$lit", disc_val=40), U("E")],
                      derives=d, std_derives=std, repr="u16", macro_args=[("base", "expr", "1 + 2"), ("off", "expr", "7 - 4"), ("lit", "literal", "40")],
                      note="the enum is the body of a macro_rules! macro; discriminants are built from $x:expr fragments (operator precedence of the substituted expression)"))
    S.append(EnumSpec("ViaMacroNeg", [U("A", disc="-$base", disc_val=-5), U("B"), U("C", disc="$base * $base", disc_val=25), U("D", disc="$base as i8 as i32 + <$t>::MAX as i32", disc_val=260)],
                      derives=d, std_derives=std, repr="i32", macro_args=[("base", "expr", "2 + 3"), ("t", "ty", "u8")],
                      note="macro_rules! body: negated / squared $x:expr fragment and a $t:ty fragment inside discriminant expressions"))
    S.append(EnumSpec("ConstNamed", [U("A", disc="3", disc_val=3), U("B", disc="A_DISCRIMINANT", disc_val=10), U("C"), U("D", disc="LIMIT_B", disc_val=40), U("E")],
                      derives=d, std_derives=std, repr="u8",
                      note="discriminants that name user constants, one of them called like the derive's internal per-variant constant (<Variant>_DISCRIMINANT)"))
    S.append(EnumSpec("CgLevel", [U("Low"), U("Mid", disc="5", disc_val=5), U("H", disabled=True), U("High")], derives=d, std_derives=std, repr="i8",
                      generics="<const BIAS: i8>", ty_args="<3>", note="field-less enum with a const-generic parameter: from_repr must stay callable in const context"))
    S.append(EnumSpec("ExprTy8", [U("Half", disc="!0 >> 1", disc_val=127), U("Next"), U("H", disabled=True), U("Q", disc="!0 / 4", disc_val=63), U("R")],
                      derives=d, std_derives=std, repr="u8", note="expressions whose value depends on being typed at the repr type (u8): !0 >> 1, !0 / 4"))
    S.append(EnumSpec("ExprTy16", [U("A", disc="!0 >> 4", disc_val=0x0fff), U("B"), U("C", disc="1 << 15", disc_val=32768), U("D")],
                      derives=d, std_derives=std, repr="u16", note="u16: !0 >> 4, 1 << 15"))
    S.append(EnumSpec("ExprTy8Apart", [U("One", disc="1", disc_val=1), U("Q", disc="!0 / 4", disc_val=63), U("S", disc="!0 >> 4", disc_val=15), U("T", disc="200", disc_val=200)],
                      derives=d, std_derives=std, repr="u8", note="width-sensitive expressions with NO implicit successor: a derive that evaluates them at another width still compiles (0 and 255) - the silent form of c06-r6a"))
    S.append(EnumSpec("ExprTy64", [U("A", disc="1 << 31", disc_val=2**31), U("B"), U("C", disc="1 << 40", disc_val=2**40), U("H", disabled=True), U("D")],
                      derives=d, std_derives=std, repr="u64", note="u64: 1 << 31 and 1 << 40 (overflow i32 arithmetic)"))
    S.append(EnumSpec("ExprTyI64", [U("A", disc="1 << 31", disc_val=2**31), U("B"), U("C", disc="-(1 << 40)", disc_val=-2**40), U("D")],
                      derives=d, std_derives=std, repr="i64", note="i64: 1 << 31, -(1 << 40)"))
    # 7. wide reprs with extreme values
    S.append(EnumSpec("W64", [U("A"), U("B", disc="0x8000_0000_0000_0000", disc_val=2**63), U("C"),
                              U("D", disc="u64::MAX", disc_val=2**64 - 1)], derives=d, std_derives=std, repr="u64",
                      note="u64 extremes"))
    S.append(EnumSpec("WI64", [U("A", disc="i64::MIN", disc_val=-2**63), U("B"), U("H", disabled=True), U("C"),
                               U("D", disc="i64::MAX", disc_val=2**63 - 1)], derives=d, std_derives=std, repr="i64",
                      note="i64 extremes with disabled"))
    S.append(EnumSpec("WIs", [U("A", disc="-1", disc_val=-1), U("B"), U("C")], derives=d, std_derives=std, repr="isize",
                      note="isize negative"))
    S.append(EnumSpec("WUs", [U("A", disc="7", disc_val=7), U("H", disabled=True), U("B")], derives=d, std_derives=std,
                      repr="usize", note="usize repr"))
    S.append(EnumSpec("I32", [U("A", disc="-2147483648", disc_val=-2**31), U("H", disabled=True), U("B"),
                              U("C", disc="2147483647", disc_val=2**31 - 1)], derives=d, std_derives=std, repr="i32",
                      note="i32 extremes"))
    # 8. data-carrying enums (not const), with repr and without
    S.append(EnumSpec("Data", [U("A", fields=[Field("u8"), Field("bool")]), U("H", disabled=True, fields=[Field("u16")]),
                               U("B", fields=[Field("u16", name="x")], named=True, disc="9", disc_val=9), U("C")],
                      derives=d, std_derives=["Debug", "Clone", "PartialEq"], repr="u8", note="payloads with repr(u8)"))
    S.append(EnumSpec("DataG", [U("A", fields=[Field("T")]), U("B"), U("H", disabled=True), U("C", fields=[Field("u32", name="k")], named=True)],
                      derives=d, std_derives=["Debug", "Clone", "PartialEq"], generics="<T: Default + PartialEq + Clone + core::fmt::Debug>",
                      ty_args="<u8>", subst={"T": "u8"}, note="generic, no repr, payloads"))
    S.append(EnumSpec("SkipLeak", [U("Off"), U("Reserved", disabled=True), U("Low", disc="10", disc_val=10), U("Mid"), U("R2", disabled=True), U("R3", disabled=True),
                                   U("High", disc="40", disc_val=40), U("Top")], derives=d, std_derives=std, repr="u8",
                      note="disabled implicit variant(s), then an explicit discriminant, then an implicit one"))
    S.append(EnumSpec("TwoRepr", [U("A"), U("B", disc="7", disc_val=7), U("C")], derives=d, std_derives=std, repr="u8", raw_attrs=["#[repr(align(4))]"],
                      note="two #[repr] attributes, the integer one second: from_repr must take the integer type"))
    S.append(EnumSpec("TwoReprSigned", [U("N", disc="-2", disc_val=-2), U("Z"), U("P", disc="5", disc_val=5)], derives=d, std_derives=std, repr="i8",
                      raw_attrs=["#[repr(align(2))]"], note="two #[repr] attributes with a signed integer type and a negative discriminant"))
    # 9. zero variants / all disabled
    S.append(EnumSpec("AllOff", [U("A", disabled=True), U("B", disabled=True)], derives=d, std_derives=std, repr="u8",
                      note="all variants disabled"))
    # 10. repr(C, u8) style ordering and repr(u8) with other attrs
    S.append(EnumSpec("Dense", [U("V%d" % i) for i in range(8)], derives=d, std_derives=std, repr="u8", note="dense 0..7"))
    return S


def random_specs(rng, n):
    out = []
    for k in range(n):
        R = rng.choice(INT_TYPES + [None])
        ty = R or "usize"
        lo, hi = RANGE[ty]
        if R is None:
            lo, hi = 0, 2**31   # default isize discriminants, from_repr takes usize: keep non-negative
        nv = rng.randint(1, 8)
        ids = rand_idents(rng, nv)
        used = set()
        prev = None
        vs = []
        for i in range(nv):
            explicit = rng.random() < 0.4
            if explicit:
                for _ in range(20):
                    c = rng.choice([lo, hi, 0, 1, -1, rng.randint(max(lo, -300), min(hi, 300)), rng.randint(lo, hi),
                                    (hi >> rng.randint(1, 6)) if lo == 0 else 2 ** rng.randint(1, 6), 2 ** rng.randint(0, 20)])
                    if lo <= c <= hi and c not in used and (c + 1) <= hi + 1:
                        break
                else:
                    explicit = False
            if explicit:
                cur = c
                text = str(cur)
                # sometimes write the same value as an expression whose meaning depends on being typed at the repr type
                bits = {"u8": 8, "i8": 8, "u16": 16, "i16": 16, "u32": 32, "i32": 32, "u64": 64, "i64": 64, "usize": 64, "isize": 64}[ty]
                signed = ty.startswith("i")
                forms = []
                if not signed and R is not None:
                    for sh in range(1, bits):
                        if ((2 ** bits - 1) >> sh) == cur:
                            forms.append("!0 >> %d" % sh)
                if cur > 0 and cur & (cur - 1) == 0 and R is not None and cur.bit_length() - 1 < (bits - 1 if signed else bits):
                    forms.append("1 << %d" % (cur.bit_length() - 1))
                if cur < 0 and (-cur) & (-cur - 1) == 0 and R is not None and (-cur).bit_length() - 1 < bits - 1:
                    forms.append("-(1 << %d)" % ((-cur).bit_length() - 1))
                if 2 <= cur <= hi and cur % 2 == 0:
                    forms.append("%d * 2" % (cur // 2))
                if lo + 3 <= cur:
                    forms.append("%d + 3" % (cur - 3))
                if forms and rng.random() < 0.6:
                    text = rng.choice(forms)
            else:
                cur = 0 if prev is None else prev + 1
                text = None
            if cur in used or cur > hi or cur < lo:
                # cannot place implicitly: give it a fresh explicit value
                cur = next(x for x in range(max(lo, 0), hi) if x not in used)
                text = str(cur)
            used.add(cur)
            prev = cur
            vs.append(Variant(ident=ids[i], disc=text, disc_val=cur if text is not None else None,
                              disabled=rng.random() < 0.3))
        out.append(decorate(rng, EnumSpec("R%d" % k, vs, derives=["FromRepr"], std_derives=["Debug", "Clone", "Copy", "PartialEq"],
                            repr=R, role="random", note="random seed corpus")))
    return out


specs_cache = {}


def e2(run, programs, tier, seed, known):
    """E2: MIR of from_repr and of the generated <Variant>_DISCRIMINANT constants -> bit-vector VCs (z3 + cvc5)."""
    import copy, os, shutil, time
    import framework as fw
    import driver
    import mir2smt as m
    import mir2smt_repr as mr
    specs = specs_cache.get((tier, seed), [])
    t0 = time.time()
    cdir = os.path.join(run.cdir, "e2r")
    os.makedirs(os.path.join(cdir, "src"), exist_ok=True)
    with open(os.path.join(cdir, "Cargo.toml"), "w") as f:
        f.write('[package]\nname = "sv_c06_e2"\nversion = "0.0.0"\nedition = "2021"\n[dependencies]\nstrum = { path = "%s/strum", features = ["derive"] }\n[workspace]\n' % fw.REPO)
    shutil.copy(fw.lockfile(), os.path.join(cdir, "Cargo.lock"))
    src = ["#![allow(dead_code, non_camel_case_types, unused, non_upper_case_globals)]", "pub const BASE_EXPR: u8 = 10;", "pub const A_DISCRIMINANT: u8 = 10;", "pub const LIMIT_B: u8 = 40;"]
    for sp in specs:
        sp2 = copy.deepcopy(sp)
        sp2.std_derives = ["Debug"]
        src.append(render_enum(sp2))
    with open(os.path.join(cdir, "src", "lib.rs"), "w") as f:
        f.write("\n".join(src) + "\n")
    env = dict(fw.ENV)
    env["CARGO_TARGET_DIR"] = os.path.join(fw.CACHE, "e2-target")
    rc, out, to, _ = fw.run(["cargo", "+nightly", "rustc", "--offline", "--lib", "--", "-Zunpretty=mir", "-C", "debug-assertions=off", "-C", "overflow-checks=off"],
                            cwd=cdir, timeout=900, env=env, log=None)
    k = out.find("// WARNING: This output format")
    res = {"queries": 0, "nontrivial": 0, "solver_s": 0.0, "functions": [], "samples": [], "unsupported": [],
           "claim": "for EVERY d of the discriminant type: the variant reached through from_repr's MIR, with the generated constants evaluated "
                    "from their own MIR bodies, is the enabled variant whose rustc discriminant is d"}
    if rc != 0 or k < 0:
        res["unsupported"].append("no MIR dump (rc=%s): not decided by E2" % rc)
        run.say("NOTE: E2 (from_repr) could not obtain a MIR dump; the property rests on E1")
        return res
    text = out[k:]
    for sp in specs:
        R = sp.repr if sp.repr in INT_TYPES else "usize"
        prog = next((p for p in programs if (" enum %s " % sp.name) in p.enum_src or (" enum %s<" % sp.name) in p.enum_src), None)
        vs = [(v.ident, v.disabled, d) for v, d in zip(sp.variants, discriminants(sp))]
        try:
            vcs, fl, consts, bits = mr.from_repr_vcs(text, sp.name, R, vs)
        except m.Unsupported as e:
            res["unsupported"].append("%s: %s" % (sp.name, e))
            continue
        res["functions"].extend(fl)
        for vc in vcs:
            v, secs, detail = mr.solve_bv(vc["script"], bits)
            tw, secs2, _ = mr.solve_bv(vc["twin"], bits)
            res["queries"] += 2
            res["solver_s"] += secs + secs2
            if v == "unsat" and tw == "sat":
                res["nontrivial"] += 1
                if len(res["samples"]) < 2:
                    res["samples"].append({"engine": "E2-repr", "enum": sp.name, "vc": vc["name"], "what": vc["what"], "constants": consts, "verdict": "unsat", "solvers": detail})
            elif v == "unsat":
                if "leaf" not in vc["name"]:
                    run.machinery.append("E2-repr vacuity: sat-twin of %s/%s is %s" % (sp.name, vc["name"], tw))
            elif v == "sat":
                d = mr.model_d(vc["script"], bits)
                what = "E2-repr VC %s/%s violated (%s) at d=%s; generated constants %s" % (sp.name, vc["name"], vc["what"], d, consts)
                h = next((h for h in prog.harnesses if h.name == "h_from_repr_all_d"), None) if prog else None
                if d is None or h is None:
                    run.machinery.append(what + " (no model / no E1 program to replay through)")
                    continue
                vec = [int(d).to_bytes(bits // 8, "little")]
                replay = fw.native_replay(run.cdir, run.pid, "%s::%s" % (prog.name, h.name), vec, run.log)
                if fw.reproduces(replay):
                    driver.report(run, prog, h, {"check": what, "vals": vec}, replay, known)
                else:
                    run.machinery.append(what + " but it does not reproduce natively: %s" % {k2: v2["outcome"] for k2, v2 in replay.items()})
            else:
                run.machinery.append("E2-repr inconclusive: %s/%s (%s)" % (sp.name, vc["name"], detail))
    res["wall_s"] = round(time.time() - t0, 1)
    if res["unsupported"]:
        run.say("NOTE: E2 (from_repr) could not encode: %s  (not decided by E2; E1 decides these)" % "; ".join(res["unsupported"][:4]))
    return res


def build(tier, seed):
    rng = mk_rng(seed, "C06")
    specs = pivot() + random_specs(rng, 8 if tier == "quick" else 32)
    specs_cache[(tier, seed)] = specs
    programs = []
    for i, s in enumerate(specs):
        consts = "pub const BASE_EXPR: u8 = 10;\n" if s.name == "Expr" else ""
        if s.name == "ConstNamed":
            consts = "#[allow(non_upper_case_globals)]\npub const A_DISCRIMINANT: u8 = 10;\npub const LIMIT_B: u8 = 40;\n"
        programs.append(_enum_harness(s, "p%03d" % i, s.role, consts))
    return {
        "programs": programs,
        "features": ("derive",),
        "harness_timeout": 300 if tier == "quick" else 900,
        "bounds": {"d": "every value of the discriminant type (8..64 bit), no restriction",
                   "programs": "pivot corpus (%d) + seeded random corpus" % len(pivot())},
        "assumptions": [
            "program dimension enumerated: the listed enum definitions only",
            "oracle for field-less enums is rustc's own `as` cast; for data-carrying enums refsem's discriminant table",
            "negative discriminants without a signed #[repr] are outside from_repr(usize)'s domain and not generated",
        ],
        "outside": ["enum definitions not in the corpus"],
    }
