"""C06 - from_repr(d) is Some(V) iff d is the discriminant rustc gives enabled variant V.

sym: d over the FULL discriminant type.  Oracle: for field-less enums the
compiler's own cast `E::V as R`; for data-carrying enums refsem's table (rustc
rule over all declared variants)."""
from gen import *
from framework import Harness, Program


def _enum_harness(spec: EnumSpec, pname, role, consts=""):
    R = spec.repr if spec.repr in INT_TYPES else "usize"
    fieldless = all(v.kind == "unit" for v in spec.variants)
    discs = discriminants(spec)
    en = [(i, v) for i, v in enumerate(spec.variants) if not v.disabled]
    lines = []
    lines.append("    let d: %s = %s;" % (R, nd(R)))
    lines.append("    let r = %s::from_repr(d);" % spec.ty().replace("<", "::<", 1))
    # oracle
    conds = []
    for i, v in en:
        if fieldless:
            conds.append("if d == (%s::%s as %s) { Some(%du32) }" % (spec.name, v.ident, R, i))
        else:
            conds.append("if d == %s { Some(%du32) }" % (int_lit(discs[i], R), i))
    if conds:
        lines.append("    let exp: Option<u32> = " + " else ".join(conds) + " else { None };")
    else:
        lines.append("    let exp: Option<u32> = None;")
    covers = 0
    if en:
        lines.append('    vcover!(r.is_some(), "from_repr returns Some");')
        covers += 1
        # each enabled variant reachable
        for i, v in en[:3]:
            lines.append('    vcover!(exp == Some(%d), "d is the discriminant of %s");' % (i, v.ident))
            covers += 1
    lo, hi = RANGE[R]
    if len(en) < hi - lo + 1:
        lines.append('    vcover!(r.is_none(), "from_repr returns None");')
        covers += 1
    lines.append("    match (&r, exp) {")
    lines.append('        (Some(v), Some(i)) => { assert!(vidx(v) as u32 == i, "from_repr(d) returned a variant whose discriminant is not d"); assert!(payload_ok(v), "from_repr payload is not Default::default()"); }')
    lines.append("        (None, None) => {}")
    lines.append('        (Some(_), None) => { assert!(false, "from_repr(d) is Some although no enabled variant has discriminant d"); }')
    lines.append('        (None, Some(_)) => { assert!(false, "from_repr(d) is None although an enabled variant has discriminant d"); }')
    lines.append("    }")
    h = Harness(name="h_from_repr_all_d", body="\n".join(lines), kind="symbolic",
                desc="from_repr(d) vs discriminant oracle for every d: %s (%s)" % (R, "compiler cast E::V as R" if fieldless else "refsem table"),
                bound={"d": "all of %s" % R}, min_covers=covers,
                functions=["%s::from_repr" % spec.name])
    api = ""
    if fieldless and en:
        # const-callability: from_repr must be usable in const context when no variant carries data
        i, v = en[-1]
        api = "pub const K_%s: Option<%s> = %s::from_repr(%s);\n" % (
            spec.name.upper(), spec.ty(), spec.ty().replace("<", "::<", 1), int_lit(discs[i], R))
    src = consts + render_enum(spec) + "\n"
    helper = variant_index_fn(spec) + "\n" + payload_ok_fn(spec) + "\n"
    hs = [h]
    if fieldless and en:
        # round trip through the cast for a symbolic variant selector
        b = ["    let k = nd_u8();", "    vassume((k as usize) < %d);" % len(en)]
        b.append("    let v = match k { " + " ".join("%d => %s::%s," % (j, spec.name, v.ident) for j, (i, v) in enumerate(en)) + " _ => unreachable!() };")
        b.append('    vcover!(k == %d, "last enabled variant");' % (len(en) - 1))
        b.append("    let back = %s::from_repr(v.clone() as %s);" % (spec.ty().replace("<", "::<", 1), R))
        b.append('    assert!(back == Some(v), "from_repr(v as R) != Some(v)");')
        hs.append(Harness(name="h_cast_round_trip", body="\n".join(b), kind="symbolic",
                          desc="E::from_repr(v as R) == Some(v) for every enabled v",
                          bound={"k": "all enabled variants"}, min_covers=1,
                          functions=["%s::from_repr" % spec.name]))
    return Program(name=pname, enum_src=src, helper_src=helper, harnesses=hs, summary=render_enum(spec), role=role, api_src=api, note=spec.note)


def U(ident, **kw):
    return Variant(ident=ident, **kw)


def pivot():
    S = []
    d = ["FromRepr"]
    std = ["Debug", "Clone", "Copy", "PartialEq"]
    # 1. the documented example shape + a disabled variant before an implicit one (F2 shape)
    S.append(EnumSpec("Color", [U("Red"), U("Blue", disc="5", disc_val=5), U("Hidden", disabled=True), U("Green"),
                                U("Yellow", disc="200", disc_val=200)], derives=d, std_derives=std, repr="u8",
                      note="disabled variant between explicit and implicit discriminants"))
    # 2. disabled first
    S.append(EnumSpec("DFirst", [U("Off", disabled=True), U("A"), U("B"), U("C")], derives=d, std_derives=std, repr="u16",
                      note="disabled first"))
    # 3. two adjacent disabled in the middle, no repr (usize)
    S.append(EnumSpec("DAdj", [U("A"), U("H1", disabled=True), U("H2", disabled=True), U("B"), U("C")], derives=d,
                      std_derives=std, note="two adjacent disabled, no repr"))
    # 4. disabled last and disabled with own explicit value
    S.append(EnumSpec("DOwn", [U("A", disc="3", disc_val=3), U("H", disabled=True, disc="10", disc_val=10), U("B"),
                               U("Z", disabled=True)], derives=d, std_derives=std, repr="u32",
                      note="disabled with explicit discriminant; disabled last"))
    # 5. signed repr, negative, descending, gapped
    S.append(EnumSpec("Neg", [U("M", disc="-3", disc_val=-3), U("N"), U("H", disabled=True), U("O"),
                              U("Lo", disc="-128", disc_val=-128), U("Hi", disc="127", disc_val=127)],
                      derives=d, std_derives=std, repr="i8", note="i8 with MIN/MAX and negative values"))
    S.append(EnumSpec("Desc", [U("A", disc="30", disc_val=30), U("B", disc="20", disc_val=20), U("C", disc="10", disc_val=10),
                               U("D")], derives=d, std_derives=std, repr="i16", note="descending"))
    # 6. expression-valued discriminants
    S.append(EnumSpec("Expr", [U("A", disc="1 << 3", disc_val=8), U("B"), U("C", disc="BASE_EXPR + 2", disc_val=12),
                               U("H", disabled=True), U("D")], derives=d, std_derives=std, repr="u8",
                      note="expression-valued discriminants"))
    S.append(EnumSpec("ExprTy8", [U("Half", disc="!0 >> 1", disc_val=127), U("Next"), U("H", disabled=True), U("Q", disc="!0 / 4", disc_val=63), U("R")],
                      derives=d, std_derives=std, repr="u8", note="expressions whose value depends on being typed at the repr type (u8): !0 >> 1, !0 / 4"))
    S.append(EnumSpec("ExprTy16", [U("A", disc="!0 >> 4", disc_val=0x0fff), U("B"), U("C", disc="1 << 15", disc_val=32768), U("D")],
                      derives=d, std_derives=std, repr="u16", note="u16: !0 >> 4, 1 << 15"))
    S.append(EnumSpec("ExprTy64", [U("A", disc="1 << 31", disc_val=2**31), U("B"), U("C", disc="1 << 40", disc_val=2**40), U("H", disabled=True), U("D")],
                      derives=d, std_derives=std, repr="u64", note="u64: 1 << 31 and 1 << 40 (overflow i32 arithmetic)"))
    S.append(EnumSpec("ExprTyI64", [U("A", disc="1 << 31", disc_val=2**31), U("B"), U("C", disc="-(1 << 40)", disc_val=-2**40), U("D")],
                      derives=d, std_derives=std, repr="i64", note="i64: 1 << 31, -(1 << 40)"))
    # 7. wide reprs with extreme values
    S.append(EnumSpec("W64", [U("A"), U("B", disc="0x8000_0000_0000_0000", disc_val=2**63), U("C"),
                              U("D", disc="u64::MAX", disc_val=2**64 - 1)], derives=d, std_derives=std, repr="u64",
                      note="u64 extremes"))
    S.append(EnumSpec("WI64", [U("A", disc="i64::MIN", disc_val=-2**63), U("B"), U("H", disabled=True), U("C"),
                               U("D", disc="i64::MAX", disc_val=2**63 - 1)], derives=d, std_derives=std, repr="i64",
                      note="i64 extremes with disabled"))
    S.append(EnumSpec("WIs", [U("A", disc="-1", disc_val=-1), U("B"), U("C")], derives=d, std_derives=std, repr="isize",
                      note="isize negative"))
    S.append(EnumSpec("WUs", [U("A", disc="7", disc_val=7), U("H", disabled=True), U("B")], derives=d, std_derives=std,
                      repr="usize", note="usize repr"))
    S.append(EnumSpec("I32", [U("A", disc="-2147483648", disc_val=-2**31), U("H", disabled=True), U("B"),
                              U("C", disc="2147483647", disc_val=2**31 - 1)], derives=d, std_derives=std, repr="i32",
                      note="i32 extremes"))
    # 8. data-carrying enums (not const), with repr and without
    S.append(EnumSpec("Data", [U("A", fields=[Field("u8"), Field("bool")]), U("H", disabled=True, fields=[Field("u16")]),
                               U("B", fields=[Field("u16", name="x")], named=True, disc="9", disc_val=9), U("C")],
                      derives=d, std_derives=["Debug", "Clone", "PartialEq"], repr="u8", note="payloads with repr(u8)"))
    S.append(EnumSpec("DataG", [U("A", fields=[Field("T")]), U("B"), U("H", disabled=True), U("C", fields=[Field("u32", name="k")], named=True)],
                      derives=d, std_derives=["Debug", "Clone", "PartialEq"], generics="<T: Default + PartialEq + Clone + core::fmt::Debug>",
                      ty_args="<u8>", subst={"T": "u8"}, note="generic, no repr, payloads"))
    S.append(EnumSpec("SkipLeak", [U("Off"), U("Reserved", disabled=True), U("Low", disc="10", disc_val=10), U("Mid"), U("R2", disabled=True), U("R3", disabled=True),
                                   U("High", disc="40", disc_val=40), U("Top")], derives=d, std_derives=std, repr="u8",
                      note="disabled implicit variant(s), then an explicit discriminant, then an implicit one"))
    S.append(EnumSpec("TwoRepr", [U("A"), U("B", disc="7", disc_val=7), U("C")], derives=d, std_derives=std, repr="u8", raw_attrs=["#[repr(align(4))]"],
                      note="two #[repr] attributes, the integer one second: from_repr must take the integer type"))
    S.append(EnumSpec("TwoReprSigned", [U("N", disc="-2", disc_val=-2), U("Z"), U("P", disc="5", disc_val=5)], derives=d, std_derives=std, repr="i8",
                      raw_attrs=["#[repr(align(2))]"], note="two #[repr] attributes with a signed integer type and a negative discriminant"))
    # 9. zero variants / all disabled
    S.append(EnumSpec("AllOff", [U("A", disabled=True), U("B", disabled=True)], derives=d, std_derives=std, repr="u8",
                      note="all variants disabled"))
    # 10. repr(C, u8) style ordering and repr(u8) with other attrs
    S.append(EnumSpec("Dense", [U("V%d" % i) for i in range(8)], derives=d, std_derives=std, repr="u8", note="dense 0..7"))
    return S


def random_specs(rng, n):
    out = []
    for k in range(n):
        R = rng.choice(INT_TYPES + [None])
        ty = R or "usize"
        lo, hi = RANGE[ty]
        if R is None:
            lo, hi = 0, 2**31   # default isize discriminants, from_repr takes usize: keep non-negative
        nv = rng.randint(1, 8)
        ids = rand_idents(rng, nv)
        used = set()
        prev = None
        vs = []
        for i in range(nv):
            explicit = rng.random() < 0.4
            if explicit:
                for _ in range(20):
                    c = rng.choice([lo, hi, 0, 1, -1, rng.randint(max(lo, -300), min(hi, 300)), rng.randint(lo, hi),
                                    (hi >> rng.randint(1, 6)) if lo == 0 else 2 ** rng.randint(1, 6), 2 ** rng.randint(0, 20)])
                    if lo <= c <= hi and c not in used and (c + 1) <= hi + 1:
                        break
                else:
                    explicit = False
            if explicit:
                cur = c
                text = str(cur)
                # sometimes write the same value as an expression whose meaning depends on being typed at the repr type
                bits = {"u8": 8, "i8": 8, "u16": 16, "i16": 16, "u32": 32, "i32": 32, "u64": 64, "i64": 64, "usize": 64, "isize": 64}[ty]
                signed = ty.startswith("i")
                forms = []
                if not signed and R is not None:
                    for k in range(1, bits):
                        if ((2 ** bits - 1) >> k) == cur:
                            forms.append("!0 >> %d" % k)
                if cur > 0 and cur & (cur - 1) == 0 and R is not None and cur.bit_length() - 1 < (bits - 1 if signed else bits):
                    forms.append("1 << %d" % (cur.bit_length() - 1))
                if cur < 0 and (-cur) & (-cur - 1) == 0 and R is not None and (-cur).bit_length() - 1 < bits - 1:
                    forms.append("-(1 << %d)" % ((-cur).bit_length() - 1))
                if 2 <= cur <= hi and cur % 2 == 0:
                    forms.append("%d * 2" % (cur // 2))
                if lo + 3 <= cur:
                    forms.append("%d + 3" % (cur - 3))
                if forms and rng.random() < 0.6:
                    text = rng.choice(forms)
            else:
                cur = 0 if prev is None else prev + 1
                text = None
            if cur in used or cur > hi or cur < lo:
                # cannot place implicitly: give it a fresh explicit value
                cur = next(x for x in range(max(lo, 0), hi) if x not in used)
                text = str(cur)
            used.add(cur)
            prev = cur
            vs.append(Variant(ident=ids[i], disc=text, disc_val=cur if text is not None else None,
                              disabled=rng.random() < 0.3))
        out.append(decorate(rng, EnumSpec("R%d" % k, vs, derives=["FromRepr"], std_derives=["Debug", "Clone", "Copy", "PartialEq"],
                            repr=R, role="random", note="random seed corpus")))
    return out


def build(tier, seed):
    rng = mk_rng(seed, "C06")
    specs = pivot() + random_specs(rng, 8 if tier == "quick" else 32)
    programs = []
    for i, s in enumerate(specs):
        consts = "pub const BASE_EXPR: u8 = 10;\n" if s.name == "Expr" else ""
        programs.append(_enum_harness(s, "p%03d" % i, s.role, consts))
    return {
        "programs": programs,
        "features": ("derive",),
        "harness_timeout": 300 if tier == "quick" else 900,
        "bounds": {"d": "every value of the discriminant type (8..64 bit), no restriction",
                   "programs": "pivot corpus (%d) + seeded random corpus" % len(pivot())},
        "assumptions": [
            "program dimension enumerated: the listed enum definitions only",
            "oracle for field-less enums is rustc's own `as` cast; for data-carrying enums refsem's discriminant table",
            "negative discriminants without a signed #[repr] are outside from_repr(usize)'s domain and not generated",
        ],
        "outside": ["enum definitions not in the corpus"],
    }
