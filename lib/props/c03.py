"""C03 - all string-producing derives agree on one canonical name per variant.

canonical name = to_string, else LONGEST serialize, else re-cased identifier; prefix prepended.
sym: variant selector k, payloads, index i into VARIANTS.  The outputs are compile-time constants,
so the solver's share is the selector/payload/index space; the weight is on the program dimension."""
import copy, itertools
from gen import *
from framework import Harness, Program

GEN = "<T: Default + Clone + PartialEq + core::fmt::Debug>"


def U(ident, **kw):
    return Variant(ident=ident, **kw)


def pivot():
    S = []
    # serialize literals of distinct lengths in all 6 orders: "last" != "longest" in 4 of them
    vs = []
    for n, perm in enumerate(itertools.permutations([0, 1, 2])):
        lits = ["s%d" % n, "mid%d" % n, "longest%d" % n]
        kinds = [dict(), dict(fields=[Field("u8")]), dict(fields=[Field("u16", name="x")], named=True)]
        vs.append(U("P%d" % n, serialize=[lits[i] for i in perm], **kinds[n % 3]))
    S.append(EnumSpec("UniUpper", [U("Gr\u00f6\u00dfe"), U("Z\u00fcrich", fields=[Field("u8")]), U("Plain"), U("\u00c9cu", fields=[Field("u16", name="x")], named=True)],
                      serialize_all="UPPERCASE", prefix="k:", note="non-ASCII identifiers under UPPERCASE (sharp s expands to SS)"))
    S.append(EnumSpec("UniLower", [U("\u00c9COLE"), U("\u00c0LaCarte", fields=[Field("u8")]), U("Plain")], serialize_all="lowercase",
                      note="non-ASCII identifiers under lowercase"))
    S.append(EnumSpec("DupNames", [U("Add"), U("Plus", serialize=["+", "add"]), U("Sub", fields=[Field("u8")]), U("Minus", to_string="sub"), U("Last")],
                      serialize_all="kebab-case", prefix="op/", note="two variants whose canonical names coincide (each list still has one entry per variant, in order)"))
    S.append(EnumSpec("ViaMacro", [U("Red", serialize=["r", "red"]), U("Blue", fields=[Field("u8")], to_string="blu", serialize=["b"]),
                                   U("Green", fields=[Field("u16", name="x")], named=True), U("Longer", serialize=["lo", "longer-one"])],
                      macro_args=[("s", "literal", '"red"'), ("b", "literal", '"blu"'), ("t", "ty", "u16"), ("l", "literal", '"longer-one"')], macro_replace=True,
                      note="the definition is the body of a macro_rules! macro: spellings arrive as $x:literal fragments, a field type as $t:ty"))
    S.append(EnumSpec("Orders", vs, note="serialize literals (short, mid, long) in all 6 orders over the three variant kinds"))
    S.append(EnumSpec("TsVsSer", [
        U("A", to_string="ts", serialize=["much_longer_than_ts"]),
        U("B", serialize=["first_and_longest", "x"], fields=[Field("bool")]),
        U("C", serialize=["x2", "yy2", "zzz2"], to_string="t"),
        U("D"),
    ], note="to_string wins over a longer serialize; longest serialize declared first"))
    S.append(EnumSpec("Esc", [
        U("Tab", serialize=["\t\t\t", "tab1"]), U("Acute", serialize=["é", "abc"], fields=[Field("u8")]),
        U("Quote", serialize=["\"\"", "qqq"], fields=[Field("bool", name="b")], named=True), U("Nl", serialize=["sep/line", "\n\n\n/"]),
        U("Braces", to_string="${{name}}", fields=[Field("u32", name="id")], named=True), U("Tb", serialize=["{{x}}y", "x"], fields=[Field("u8")]),
    ], prefix="p/", note="literals whose SOURCE spelling (escapes, \\u{..}) is longer than a sibling with a longer VALUE; doubled braces on field-carrying variants"))
    for pre, nm in ((None, "NoPre"), ("", "EmptyPre"), ("pre_", "Pre"), ("é", "UniPre")):
        S.append(EnumSpec(nm, [
            U("Red"), U("DarkBlue", fields=[Field("u8")]), U("Gr", serialize=["g", "green"], fields=[Field("bool", name="b")], named=True),
            U("Ts", to_string="tee"), U("Off", disabled=True),
        ], prefix=pre, serialize_all="snake_case", note="prefix=%r on every derive incl. VariantNames / IntoStaticStr" % pre))
    S.append(EnumSpec("PrefixClash", [U("Read", to_string="read"), U("Re"), U("Child", serialize=["ns::child", "c"], fields=[Field("u8")]), U("Plain")],
                      prefix="re", note="canonical names that themselves START with the prefix (it is still prepended)"))
    S.append(EnumSpec("EmptyOnly", [U("Dimensionless", serialize=[""]), U("Both", serialize=[" ", "both"], fields=[Field("u8")]), U("Unit")], prefix="u:",
                      note="a variant whose only spelling is the empty string"))
    S.append(EnumSpec("ConstInto", [U("Aa"), U("BbCc", serialize=["b", "bbcc"]), U("Dd", fields=[Field("u8")])], const_into_str=True, prefix="k.",
                      serialize_all="SCREAMING-KEBAB-CASE", note="const_into_str + prefix + style"))
    S.append(EnumSpec("Gen", [U("One", fields=[Field("T")]), U("TwoWords"), U("Three", fields=[Field("T", name="t")], named=True, serialize=["3", "three"])],
                      generics=GEN, ty_args="<u8>", subst={"T": "u8"}, serialize_all="Train-Case", note="generic enum"))
    S.append(EnumSpec("WithSpecial", [U("A", fields=[Field("String")], default=True), U("B", to_string="x{{y}}"), U("C", serialize=["c", "cc"])],
                      note="default / escaped-brace variants next to ordinary ones (VARIANTS still lists every declared variant; placeholders are C17's)"))
    for st in casing.DOCUMENTED_STYLES:
        S.append(EnumSpec("St" + "".join(ch for ch in st if ch.isalnum()), [U("DarkBlack"), U("HTTPServer", fields=[Field("u8")]), U("Io2Go"),
                                                                            U("Utf8Text"), U("KeepMe", serialize=["KeepMe"])],
                          serialize_all=st, note="style %s" % st))
    return S


def random_specs(rng, n):
    out = []
    for k in range(n):
        vs = []
        for i, ident in enumerate(rand_idents(rng, rng.randint(1, 6))):
            v = Variant(ident=ident)
            r = rng.random()
            if r < 0.4:
                m = rng.randint(1, 4)
                lens = rng.sample([1, 2, 3, 5, 8, 11], m)
                fill = rng.choice(["z", "z", "\t", "é", "\""])
                v.serialize = []
                for L in lens:
                    body = fill * L if rng.random() < 0.3 and len(fill.encode()) == 1 else "z" * L
                    v.serialize.append(("q%d" % i) + body)
            if rng.random() < 0.3:
                v.to_string = "T%d%s" % (i, "w" * rng.randint(0, 4))
            kd = rng.random()
            if kd < 0.25:
                v.fields = [Field(rng.choice(["u8", "bool", "u16"]))]
            elif kd < 0.4:
                v.fields = [Field("u8", name="fld")]
                v.named = True
            if rng.random() < 0.15:
                v.disabled = True
            vs.append(v)
        out.append(decorate(rng, EnumSpec("R%d" % k, vs, serialize_all=rng.choice([None] + casing.ALL_STYLE_STRINGS),
                            prefix=rng.choice([None, None, "p-", ""]), const_into_str=rng.random() < 0.3, role="random", note="random")))
    return out


def program(spec: EnumSpec, pname, tier):
    spec = copy.deepcopy(spec)
    spec.derives = ["Display", "AsRefStr", "AsStaticStr", "IntoStaticStr", "VariantNames"]
    spec.std_derives = ["Debug", "Clone", "PartialEq"]
    tw = copy.deepcopy(spec)
    tw.name = spec.name + "Ts"
    tw.derives = ["ToString"]
    # the deprecated ToString derive only supports tuple-form default variants; mirror the enum otherwise
    elig = eligible_print(spec)
    names = [canonical(spec, spec.variants[i]) for i in elig]
    allnames = [canonical(spec, v) for v in spec.variants]
    src = render_enum(spec) + "\n" + render_enum(tw) + "\n"
    helper = make_fn(spec, elig, "make") + "\n" + make_fn(tw, elig, "make_ts") + "\n" + bytes_table_fn("canon", names) + "\n" + \
        bytes_table_fn("canon_decl", allnames) + "\n"
    E = spec.ty()
    nel = len(elig)
    hs = []
    fns = ["<%s as Display>::fmt" % spec.name, "<%s as AsRef<str>>::as_ref" % spec.name, "<%s as AsStaticRef<str>>::as_static" % spec.name,
           "<&'static str as From<%s>>::from" % spec.name, "<&'static str as From<&%s>>::from" % spec.name,
           "<%s as VariantNames>::VARIANTS" % spec.name, "<%s as ToString>::to_string" % tw.name]
    if nel:
        body = """    use strum::AsStaticRef;
    let k = nd_u8();
    vassume((k as usize) < %(nel)d);
    let v = make(k);
    let name = canon(k as usize);
    vcover!(k as usize == %(nel)d - 1, "last eligible variant");
    let mut a = Buf::<48>::new();
    let _ = write!(a, "{}", v);
    assert!(!a.overflow && beq(a.bytes(), name), "Display does not print the canonical name");
    assert!(beq(AsRef::<str>::as_ref(&v).as_bytes(), name), "AsRefStr does not return the canonical name");
    assert!(beq(AsStaticRef::<str>::as_static(&v).as_bytes(), name), "AsStaticStr does not return the canonical name");
    let r: &'static str = <&'static str>::from(&v);
    assert!(beq(r.as_bytes(), name), "IntoStaticStr (by reference) does not return the canonical name");
%(into_str)s
    let o: &'static str = <&'static str>::from(v);
    assert!(beq(o.as_bytes(), name), "IntoStaticStr (by value) does not return the canonical name");
    let t = make_ts(k);
    let ts = ToString::to_string(&t);
    assert!(beq(ts.as_bytes(), name), "ToString derive does not return the canonical name");
    core::mem::forget(ts);
""" % {"nel": nel, "into_str": ('    assert!(beq(v.into_str().as_bytes(), name), "const into_str() does not return the canonical name");' if spec.const_into_str else "")}
        hs.append(Harness(name="h_canonical_name", body=body, unwind=50, kind="symbolic",
                          desc="Display, ToString, AsRefStr, AsStaticStr, IntoStaticStr (value/ref%s) == canonical name for every eligible variant (symbolic selector, symbolic payloads)" % (
                              "/const into_str" if spec.const_into_str else ""),
                          bound={"k": "all %d eligible variants" % nel}, min_covers=1, functions=fns))
    nd_ = len(spec.variants)
    body = """    use strum::VariantNames;
    let vs: &'static [&'static str] = <%(E)s as VariantNames>::VARIANTS;
    assert!(vs.len() == %(nd)d, "VARIANTS does not have one entry per declared variant");
    let i = nd_usize();
    vassume(i < %(nd)d);
    vcover!(i == %(nd)d - 1, "last declared variant");
    assert!(beq(vs[i].as_bytes(), canon_decl(i)), "VARIANTS[i] is not the canonical name of declared variant i");
""" % {"E": E, "nd": nd_}
    if nd_:
        hs.append(Harness(name="h_variant_names", body=body, unwind=50, kind="symbolic",
                          desc="VariantNames::VARIANTS[i] == canonical name of declared variant i for every i, and len == number of declared variants",
                          bound={"i": "all %d declared variants" % nd_}, min_covers=1, functions=fns))
    api = ""
    if spec.const_into_str:
        units = [i for i in elig if spec.variants[i].kind == "unit"]
        if units:
            api = "pub const CONST_NAME: &'static str = %s::%s.into_str();\n" % (spec.name, spec.variants[units[0]].ident)
    return Program(name=pname, enum_src=src, helper_src=helper, api_src=api, harnesses=hs, summary=render_enum(spec), role=spec.role, note=spec.note)


def build(tier, seed):
    rng = mk_rng(seed, "C03")
    specs = pivot() + random_specs(rng, 3 if tier == "quick" else 20)
    programs = [program(s, "p%03d" % i, tier) for i, s in enumerate(specs)]
    return {
        "programs": programs,
        "harness_timeout": 300 if tier == "quick" else 1200,
        "bounds": {"selector": "every eligible variant", "payloads": "symbolic ints/bools"},
        "assumptions": ["program dimension enumerated; outputs are compile-time constants so the solver quantifies over selector, payloads and index only",
                        "serialize candidates of equal length are not generated (the statement does not order ties)",
                        "byte length and char length orderings of the serialize literals agree in the corpus"],
        "outside": ["enums outside the corpus"],
    }
