"""C15 - EnumProperty returns the declared value for (variant, key, type), else None.

sym: key = any valid UTF-8 string <= N bytes; variant selector; payloads."""
from strgen import *


def U(ident, **kw):
    return Variant(ident=ident, **kw)


def pivot():
    d = ["EnumProperty"]
    S = []
    S.append(EnumSpec("ViaMacro", [U("Red", props=[[("name", "red"), ("rgb", 0xff0000), ("warm", True)]]), U("Blue", props=[[("name", "blue")], [("depth", -7)]]), U("Plain")],
                      derives=d, macro_args=[("n", "literal", '"red"'), ("i", "literal", "16711680"), ("neg", "literal", "-7"), ("w", "literal", "true")], macro_replace=True,
                      note="the definition is the body of a macro_rules! macro: property values arrive as $x:literal fragments"))
    S.append(EnumSpec("Col", [
        U("Red", props=[[("name", "red"), ("rgb", 0xff0000), ("warm", True)]]),
        U("Blue", props=[[("name", "blue")], [("rgb", 255), ("warm", False)], [("depth", -7)]]),
        U("Green", fields=[Field("u8")], props=[[("rgb", "00ff00")], [("name", 3)]]),
        U("Plain"),
        U("Hid", disabled=True, props=[[("name", "hidden"), ("rgb", 1)]]),
        U("Nm", fields=[Field("u16", name="x")], named=True, props=[[("warm", "yes"), ("Name", "cap")]]),
    ], derives=d, note="keys shared across variants and across types; 1..3 groups; disabled variant with props; all kinds"))
    S.append(EnumSpec("DisAttr", [U("A", props=[[("k", "a")]]), U("H1", disabled=True, message="m", flags_last=True, props=[[("k", "h")]]),
                                  U("B", props=[[("k", "b"), ("n", 2)]], message="mb"), U("H2", disabled=True, attr_style="trailing", props=[[("n", 9)]])],
                      derives=d, note="`disabled` after a key = value item in the same attribute / trailing comma, next to props"))
    S.append(EnumSpec("SameShape", [
        U("Text", props=[[("level", "1"), ("on", "true")]]), U("Typed", props=[[("level", 1), ("on", True)]]),
        U("TypedAgain", props=[[("level", 1), ("on", True)]]), U("Mixed", props=[[("level", "1"), ("on", True)]]),
    ], derives=d, note="variants with the same keys in the same order whose values READ the same but have different literal types"))
    S.append(EnumSpec("Repeat", [
        U("A", props=[[("size", "large")], [("size", 42), ("size", True)]]), U("B", props=[[("size", 1)], [("size", "s")]]),
    ], derives=d, note="one key declared with all three types on one variant, split over groups"))
    S.append(EnumSpec("StrOnly", [U("Room", props=[[("no", "201"), ("open", "true"), ("neg", "-5")]]), U("Hall", props=[[("no", "x")]]), U("None_")],
                      derives=d, note="ONLY string literals in the whole enum, some of which read like integers / booleans"))
    S.append(EnumSpec("IntOnly", [U("A", props=[[("n", 1)]]), U("B", props=[[("n", 0)], [("m", -1)]])], derives=d, note="only integer literals in the whole enum"))
    S.append(EnumSpec("DisLeak", [U("H", disabled=True, props=[[("depth", 7), ("tag", "h"), ("on", True)]]), U("Circle"), U("Sq", props=[[("tag", "s")]])],
                      derives=d, note="a disabled variant WITH props directly before an enabled variant WITHOUT props"))
    S.append(EnumSpec("Uni", [U("A", props=[[("gr\u00f6\u00dfe", 42), ("ab", 1)]]), U("B", props=[[("stra\u00dfe", "s")], [("x", "y")]])], derives=d,
                      note="non-ASCII identifier keys that are the longest key of their type"))
    S.append(EnumSpec("CiFlag", [U("A", props=[[("symbol", "m"), ("Symbol", "M")]]), U("B", props=[[("unit", 1)]], aci=False), U("C", aci=True, props=[[("k", True)]])],
                      derives=d, aci=True, note="ascii_case_insensitive (enum and variant level) must not affect property lookups"))
    S.append(EnumSpec("Kw", [
        U("A", props=[[("type", "t"), ("fn", 1), ("match", True)]]),
        U("B", props=[[("r#type", "raw")]] if False else [[("self", "s")], [("type", 2)]]),
    ], derives=d, note="keyword-like keys"))
    S.append(EnumSpec("Ints", [
        U("Lo", props=[[("v", -9223372036854775808)], [("w", -1)]]),
        U("Hi", props=[[("v", 9223372036854775807)], [("w", 0)]]),
        U("Mid", props=[[("v", 0x10)]]),
    ], derives=d, note="integer extremes incl. i64::MIN / i64::MAX and negative values"))
    S.append(EnumSpec("AllOff", [U("A", disabled=True, props=[[("k", "v")]])], derives=d, note="only a disabled variant"))
    S.append(EnumSpec("Pre", [U("A", props=[[("ab", "x"), ("abc", "y"), ("a", "z")]]), U("B", props=[[("AB", "u"), ("b", "")]])], derives=d,
                      note="keys that are prefixes / case variants of each other, empty string value"))
    return S


def random_specs(rng, n):
    keys = ["k", "key", "Key", "id", "x1", "type", "name", "nm"]
    out = []
    for t in range(n):
        vs = []
        for i, ident in enumerate(rand_idents(rng, rng.randint(1, 5))):
            groups = []
            used = set()
            for g in range(rng.randint(0, 3)):
                grp = []
                for _ in range(rng.randint(1, 3)):
                    k = rng.choice(keys)
                    ty = rng.choice(["str", "int", "bool"])
                    if (k, ty) in used:
                        continue
                    used.add((k, ty))
                    val = {"str": "v%d%s" % (i, k), "int": rng.choice([0, 1, -1, 2**40, -2**50, i]), "bool": rng.random() < 0.5}[ty]
                    grp.append((k, val))
                if grp:
                    groups.append(grp)
            v = Variant(ident=ident, props=groups, disabled=rng.random() < 0.2)
            if rng.random() < 0.3:
                v.fields = [Field("u8")]
            vs.append(v)
        out.append(decorate(rng, EnumSpec("R%d" % t, vs, derives=["EnumProperty"], role="random", note="random"), allow_props=False))
    return out


def value_fn(spec):
    """fn make(k: u8) -> E : k-th declared variant with symbolic integer payloads"""
    arms = []
    for i, v in enumerate(spec.variants):
        exprs = []
        for f in v.fields:
            ct = concrete_ty(spec, f.ty)
            exprs.append(nd(ct) if ct in INT_TYPES or ct == "bool" else "<%s as Default>::default()" % ct)
        arms.append("        %d => %s," % (i, construct(spec, v, exprs)))
    return "pub fn make(k: u8) -> %s {\n    match k {\n%s\n        _ => unreachable!(),\n    }\n}" % (spec.ty(), "\n".join(arms))


def program(spec, pname, tier, cap):
    allkeys = set()
    for v in spec.variants:
        for g in v.props:
            for k, _ in g:
                allkeys.add(k)
    N = max(3, min(cap, max([len(k.encode()) for k in allkeys] + [1]) + 1))
    src = render_enum(spec) + "\n"
    helper = value_fn(spec) + "\n"
    # oracle tables
    for ty, rty, lit in (("str", "&'static [u8]", lambda x: rust_bytes(x.encode())), ("int", "i64", lambda x: "%d_i64" % x if x != -2**63 else "i64::MIN"),
                         ("bool", "bool", lambda x: "true" if x else "false")):
        lines = ["pub fn exp_%s(k: u8, key: &[u8]) -> Option<%s> {" % (ty, rty)]
        for i, v in enumerate(spec.variants):
            if v.disabled:
                continue
            tbl = merged_props(v)[ty]
            for kk, val in tbl.items():
                lines.append("    if k == %d && beq(key, %s) { return Some(%s); }" % (i, rust_bytes(kk.encode()), lit(val)))
        lines.append("    None\n}")
        helper += "\n".join(lines) + "\n"
    nvar = len(spec.variants)
    body = """    use strum::EnumProperty;
    let ss = SymStr::<%(N)d>::utf8();
    let key = ss.as_str();
    let k = nd_u8();
    vassume((k as usize) < %(nvar)d);
    let e = make(k);
    let gs = e.get_str(key);
    let gi = e.get_int(key);
    let gb = e.get_bool(key);
    let (xs, xi, xb) = (exp_str(k, ss.bytes()), exp_int(k, ss.bytes()), exp_bool(k, ss.bytes()));
%(covers)s
    match (gs, xs) {
        (Some(a), Some(b)) => { assert!(beq(a.as_bytes(), b), "get_str returned another value than declared"); }
        (None, None) => {}
        (Some(_), None) => { assert!(false, "get_str returned Some for an undeclared (variant, key, string) triple"); }
        (None, Some(_)) => { assert!(false, "get_str returned None for a declared string property"); }
    }
    assert!(gi == xi, "get_int disagrees with the declared integer properties");
    assert!(gb == xb, "get_bool disagrees with the declared boolean properties");
"""
    covers = []
    ncov = 0
    has = {ty: any(merged_props(v)[ty] for v in enabled(spec)) for ty in ("str", "int", "bool")}
    if has["str"]:
        covers.append('    vcover!(xs.is_some(), "declared string property");'); ncov += 1
    if has["int"]:
        covers.append('    vcover!(xi.is_some(), "declared integer property");'); ncov += 1
    if has["bool"]:
        covers.append('    vcover!(xb.is_some(), "declared boolean property");'); ncov += 1
    covers.append('    vcover!(xs.is_none() && xi.is_none() && xb.is_none() && ss.len > 0, "undeclared key");'); ncov += 1
    body = body % {"N": N, "nvar": nvar, "covers": "\n".join(covers)}
    fns = ["<%s as EnumProperty>::get_str" % spec.name, "<%s as EnumProperty>::get_int" % spec.name, "<%s as EnumProperty>::get_bool" % spec.name]
    hs = []
    if nvar:
        hs.append(Harness(name="h_props_n%d" % N, body=body, unwind=N + 2, kind="symbolic",
                          desc="get_str/get_int/get_bool(key) vs declared table for every variant and every valid UTF-8 key <= %d bytes" % N,
                          bound={"N_bytes": N, "alphabet": "all valid UTF-8", "variant": "all declared"}, min_covers=ncov, functions=fns))
    if nvar:
        hs.append(Harness(name="h_e2_replay", native_only=True, desc="replay vehicle for E2 models: any key up to 64 bytes, any variant",
                          body="""    use strum::EnumProperty;
    let ss = SymStr::<64>::utf8();
    let k = nd_u8();
    vassume((k as usize) < %d);
    let e = make(k);
    let key = ss.as_str();
    match (e.get_str(key), exp_str(k, ss.bytes())) { (Some(a), Some(b)) => assert!(beq(a.as_bytes(), b)), (None, None) => {}, _ => assert!(false, "get_str disagrees with the declared properties") }
    assert!(e.get_int(key) == exp_int(k, ss.bytes()), "get_int disagrees with the declared properties");
    assert!(e.get_bool(key) == exp_bool(k, ss.bytes()), "get_bool disagrees with the declared properties");""" % nvar))
    return Program(name=pname, enum_src=src, helper_src=helper, harnesses=hs, summary=render_enum(spec), role=spec.role, note=spec.note)


specs_cache = {}


def e2(run, programs, tier, seed, known):
    import e2str
    import mir2smt_str as ms
    specs = [s for s in specs_cache.get((tier, seed), []) if not s.generics and s.variants]

    def vcs_of(fns, sp):
        tables = {v.ident: (merged_props(v) if not v.disabled else {"str": {}, "int": {}, "bool": {}}) for v in sp.variants}
        return ms.props_vcs(fns, sp, discriminants(sp), tables)

    def vec_of(sp, vc):
        # VC names are <getter>_<Variant>_...: recover the variant to replay with
        for i, v in enumerate(sp.variants):
            if ("_%s_" % v.ident) in vc["name"]:
                return [bytes([i])]
        return [bytes([0])]

    return e2str.run_e2(run, programs, specs, "", [], lambda sp: None, known, derive="EnumProperty", vcs_of=vcs_of, vec_of=vec_of,
                        claim="for EVERY key string of any length and every declared variant: get_str / get_int / get_bool reached through the "
                              "getters' MIR return Some(x) exactly on the declared (variant, key, type) triples")


def build(tier, seed):
    rng = mk_rng(seed, "C15")
    cap = 10 if tier == "quick" else 14
    specs = pivot() + random_specs(rng, 6 if tier == "quick" else 20)
    programs = [program(s, "p%03d" % i, tier, cap) for i, s in enumerate(specs)]
    specs_cache[(tier, seed)] = specs
    return {
        "programs": programs,
        "harness_timeout": 600 if tier == "quick" else 2400,
        "bounds": {"N": "longest declared key + 1 bytes, capped at %d; full UTF-8" % cap},
        "assumptions": ["program dimension enumerated", "no (key, type) pair is declared twice on one variant (order-dependent, unspecified)"],
        "outside": ["keys longer than N bytes"],
    }
