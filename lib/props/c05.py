"""C05 - the derived iterator obeys the double-ended / exact-size / fused contract.

E1 (this file): black-box harnesses through the public API only, against a reference deque
model (lo, hi) over the list of enabled variants:
  * h_hist4     every history of 4 ops from iter(), with a clone fork after op 2, every n: usize
  * h_any_state canonical prefix reaching ANY cursor state (a x next, b x next_back, optional
                overshoot from either end), then 2 symbolic ops with every n: usize
  * h_adapters  skip(n)/step_by(k) built on nth, every n, k
E2 (mir2smt, see e2()): base + inductive step VCs on the MIR with wrapping (release) and checked
(dev) arithmetic.
"""
from gen import *
from framework import Harness, Program
import os


def _support(spec: EnumSpec):
    en = [(i, v) for i, v in enumerate(spec.variants) if not v.disabled]
    C = len(en)
    It = "%sIter%s" % (spec.name, spec.ty_args)
    arms = []
    k = 0
    for i, v in enumerate(spec.variants):
        if v.disabled:
            arms.append("        %s => 999," % pattern(spec, v))
        else:
            arms.append("        %s => %d," % (pattern(spec, v), k))
            k += 1
    if spec.variants:
        ordfn = "pub fn ord(e: &%s) -> usize {\n    match e {\n%s\n    }\n}" % (spec.ty(), "\n".join(arms))
    else:
        ordfn = "pub fn ord(e: &%s) -> usize { match *e {} }" % spec.ty()
    src = """
pub const C: usize = %(C)d;
pub type It = %(It)s;
%(ordfn)s
pub fn check_item(r: &Option<%(E)s>, exp: Option<usize>) {
    match (r, exp) {
        (Some(v), Some(i)) => {
            assert!(ord(v) == i, "iterator yielded a different item than the reference deque");
            assert!(payload_ok(v), "iterated item payload is not Default::default()");
        }
        (None, None) => {}
        (Some(_), None) => { assert!(false, "iterator yielded an item where the reference deque is exhausted"); }
        (None, Some(_)) => { assert!(false, "iterator returned None although the reference deque has an item"); }
    }
}
pub fn check_len(it: &It, lo: usize, hi: usize) {
    assert!(it.len() == hi - lo, "len() is not the exact number of remaining items");
    assert!(it.size_hint() == (hi - lo, Some(hi - lo)), "size_hint() is not exact");
}
/// one symbolic operation on the real iterator and on the reference deque (lo, hi)
pub fn step(it: &mut It, lo: &mut usize, hi: &mut usize) -> u8 {
    let op = nd_u8();
    let n = nd_usize();
    vassume(op < 4);
    match op {
        0 => { let r = it.next(); let e = if *lo < *hi { *lo += 1; Some(*lo - 1) } else { None }; check_item(&r, e); }
        1 => { let r = it.next_back(); let e = if *lo < *hi { *hi -= 1; Some(*hi) } else { None }; check_item(&r, e); }
        2 => { let r = it.nth(n); let rem = *hi - *lo;
               let e = if n < rem { *lo += n + 1; Some(*lo - 1) } else { *lo = *hi; None }; check_item(&r, e); }
        _ => { let r = it.nth_back(n); let rem = *hi - *lo;
               let e = if n < rem { *hi -= n + 1; Some(*hi) } else { *hi = *lo; None }; check_item(&r, e); }
    }
    check_len(it, *lo, *hi);
    op
}
""" % {"C": C, "It": It, "ordfn": ordfn, "E": spec.ty()}
    return src, C


def _program(spec: EnumSpec, pname, tier, deep):
    sup, C = _support(spec)
    E = spec.ty()
    Epath = E.replace("<", "::<", 1)
    src = render_enum(spec) + "\n"
    helper = payload_ok_fn(spec) + "\n" + sup
    hs = []
    fns = ["%sIter::%s" % (spec.name, f) for f in ("nth", "next", "next_back", "size_hint", "len", "clone", "get")] + \
          ["%s::iter" % spec.name, "core::iter::DoubleEndedIterator::nth_back (default)"]
    # ---- history of depth 4 with a clone fork
    body = """    use strum::IntoEnumIterator;
    let mut it: It = <%(E)s as IntoEnumIterator>::iter();
    let (mut lo, mut hi) = (0usize, C);
    check_len(&it, lo, hi);
    let o1 = step(&mut it, &mut lo, &mut hi);
    let o2 = step(&mut it, &mut lo, &mut hi);
    let mut c = it.clone();
    let (mut clo, mut chi) = (lo, hi);
    check_len(&c, clo, chi);
    let o3 = step(&mut it, &mut lo, &mut hi);
    check_len(&c, clo, chi);            // stepping the original does not move the clone
    let o4 = step(&mut c, &mut clo, &mut chi);
    check_len(&it, lo, hi);             // ... and vice versa
    let o5 = step(&mut it, &mut lo, &mut hi);
    let o6 = step(&mut c, &mut clo, &mut chi);
    vcover!(o1 == 2 && o2 == 3 && o3 == 2, "nth, nth_back, nth");
    vcover!(o1 == 3 && o2 == 0 && o4 == 1, "nth_back, next, clone.next_back");
    vcover!(lo == hi, "original exhausted");
""" % {"E": E}
    hs.append(Harness(name="h_hist4", body=body, unwind=C + 3, kind="symbolic",
                      desc="all histories of 4 ops (+2 on a clone forked after op 2) over {next,next_back,nth(n),nth_back(n)} "
                           "with len/size_hint checked after every op, every n: usize, vs reference deque; COUNT=%d" % C,
                      bound={"depth": "4 + clone fork", "n": "all of usize", "COUNT": C, "unwind": C + 3},
                      min_covers=3 if C > 0 else 2, functions=fns))
    # ---- canonical prefix reaching any cursor state, then 2 symbolic ops
    body = """    use strum::IntoEnumIterator;
    let mut it: It = <%(E)s as IntoEnumIterator>::iter();
    let (mut lo, mut hi) = (0usize, C);
    let a = nd_usize();
    let b = nd_usize();
    let mode = nd_u8();
    vassume(a <= C && b <= C && a + b <= C && mode < 4);
    let mut i = 0;
    while i < a { let r = it.next(); check_item(&r, Some(lo)); lo += 1; i += 1; }
    let mut j = 0;
    while j < b { let r = it.next_back(); hi -= 1; check_item(&r, Some(hi)); j += 1; }
    check_len(&it, lo, hi);
    if mode == 1 || mode == 3 { let r = it.nth(C); check_item(&r, None); lo = hi; }          // front cursor overshoots and freezes
    if mode == 2 || mode == 3 { let r = it.nth_back(C); check_item(&r, None); hi = lo; }     // back cursor overshoots and freezes
    check_len(&it, lo, hi);
    let o1 = step(&mut it, &mut lo, &mut hi);
    let mut c = it.clone();
    let (mut clo, mut chi) = (lo, hi);
    let o2 = step(&mut it, &mut lo, &mut hi);
    check_len(&c, clo, chi);
    let o3 = step(&mut c, &mut clo, &mut chi);
    check_len(&it, lo, hi);
    vcover!(mode == 1 && o1 == 1, "next_back after the front froze");
    vcover!(mode == 2 && o1 == 2, "nth after the back froze");
    vcover!(mode == 0 && a + b == C, "exactly exhausted without overshoot");
""" % {"E": E}
    hs.append(Harness(name="h_any_state", body=body, unwind=C + 3, kind="symbolic",
                      desc="from EVERY cursor state reachable through the public API (a x next, b x next_back, optional overshoot "
                           "from either end) two more symbolic ops (+1 on a clone), every n: usize; COUNT=%d" % C,
                      bound={"prefix": "a+b<=COUNT, overshoot in {none,front,back,both}", "ops": 2, "n": "all of usize", "COUNT": C},
                      min_covers=3, functions=fns))
    # ---- adapters built on nth
    body = """    use strum::IntoEnumIterator;
    let n = nd_usize();
    let k = nd_usize();
    vassume(k >= 1);
    let mut s = <%(E)s as IntoEnumIterator>::iter().skip(n);
    let r = s.next();
    check_item(&r, if n < C { Some(n) } else { None });
    let r2 = s.next();
    check_item(&r2, if n < C && n + 1 < C { Some(n + 1) } else { None });
    let mut sb = <%(E)s as IntoEnumIterator>::iter().step_by(k);
    let x0 = sb.next();
    check_item(&x0, if C > 0 { Some(0) } else { None });
    let x1 = sb.next();
    check_item(&x1, if k < C { Some(k) } else { None });
    let mut rv = <%(E)s as IntoEnumIterator>::iter().rev().skip(n);
    let y = rv.next();
    check_item(&y, if n < C { Some(C.wrapping_sub(1).wrapping_sub(n)) } else { None });
    vcover!(n == usize::MAX, "skip(usize::MAX)");
    vcover!(k == usize::MAX, "step_by(usize::MAX)");
""" % {"E": E}
    hs.append(Harness(name="h_adapters", body=body, unwind=C + 3, kind="symbolic",
                      desc="skip(n), rev().skip(n), step_by(k) for every n, k: usize (adapters built on nth / nth_back); COUNT=%d" % C,
                      bound={"n": "all of usize", "k": "1..=usize::MAX", "COUNT": C}, min_covers=2, functions=fns))
    if C > 64:
        hs = [h for h in hs if h.name == "h_adapters"]       # histories over a 256-arm match are left to E2
    api = ""
    if spec.generics:
        api = """pub fn api_send_sync() {
    fn is_send_sync<X: Send + Sync>() {}
    is_send_sync::<%sIter<NotSend>>();
}
""" % spec.name
    return Program(name=pname, enum_src=src, helper_src=helper, harnesses=hs, summary=render_enum(spec), role=spec.role, api_src=api, note=spec.note)


NOTSEND = """#[derive(Debug, Clone, PartialEq)]
pub struct NotSend(pub *const u8);
impl Default for NotSend { fn default() -> Self { NotSend(core::ptr::null()) } }
"""


def specs(tier, rng):
    d = ["EnumIter"]
    S = []
    U = lambda i, **kw: Variant(ident=i, **kw)
    S.append(EnumSpec("E0", [], derives=d, note="zero variants"))
    S.append(EnumSpec("E1", [U("A")], derives=d, note="one variant"))
    S.append(EnumSpec("E2d", [U("H", disabled=True), U("A"), U("B")], derives=d, note="COUNT=2, disabled first"))
    S.append(EnumSpec("E3", [U("A"), U("B", fields=[Field("u8")]), U("C", fields=[Field("bool", name="x")], named=True)],
                      derives=d, note="COUNT=3, all kinds"))
    S.append(EnumSpec("E4d", [U("A"), U("H", disabled=True), U("B"), U("C"), U("H2", disabled=True), U("D")], derives=d,
                      note="COUNT=4, disabled middle and adjacent-to-last"))
    S.append(EnumSpec("G5", [U("A", fields=[Field("T")]), U("B"), U("C"), U("D", fields=[Field("T", name="t")], named=True), U("E")],
                      derives=d, generics="<T: Default + Clone + PartialEq + core::fmt::Debug>", ty_args="<u16>", subst={"T": "u16"},
                      note="COUNT=5, generic (also Send+Sync witness at a !Send type argument)"))
    S.append(EnumSpec("E7", [U("Sun"), U("Mon"), U("Tue"), U("Wed"), U("Thu"), U("Fri"), U("Sat")], derives=d,
                      note="COUNT=7 (the shape of the repository's own test)"))
    S.append(EnumSpec("E8d", [U("V%d" % i, disabled=(i in (2, 9))) for i in range(10)], derives=d, note="COUNT=8 with two disabled"))
    S.append(EnumSpec("AllOff", [U("A", disabled=True), U("B", disabled=True)], derives=d, note="all disabled, COUNT=0"))
    S.append(EnumSpec("E6", [U("V%d" % i) for i in range(6)], derives=d, note="COUNT=6"))
    if tier == "quick":
        keep = ["E0", "E1", "E3", "E4d", "G5", "E7", "E8d"]
        S = [s for s in S if s.name in keep]
    else:
        for k in range(4):
            n = rng.randint(1, 9)
            S.append(EnumSpec("R%d" % k, [U("V%d" % i, disabled=rng.random() < 0.3) for i in range(n)], derives=d, role="random",
                              note="random"))
    # (enums with 256 / 257 enabled variants - the 8-bit boundary of any narrowed cursor - are exercised by C04's
    #  accessor and traversal harnesses; here z3 does not finish the 257-way item VC and the histories run out of memory)
    return S


def build(tier, seed):
    rng = mk_rng(seed, "C05")
    S = specs(tier, rng)
    specs_cache[(tier, seed)] = S
    programs = []
    for i, s in enumerate(S):
        p = _program(s, "p%03d" % i, tier, True)
        if s.generics:
            p.enum_src = NOTSEND + p.enum_src
        programs.append(p)
    return {
        "programs": programs,
        "specs": S,
        "harness_timeout": 600 if tier == "quick" else 2400,
        "bounds": {"n": "every usize (no restriction)", "history depth": "4 (+2 on a forked clone); any-state prefix + 2 ops (+1 on a clone)",
                   "COUNT": "0..8 enabled variants", "profile": "E1: dev (overflow checks on); E2: release-wrap and dev MIR"},
        "assumptions": [
            "program dimension enumerated: enums with 0..8 enabled variants, with/without disabled ones, one generic",
            "E1 models the dev profile; release arithmetic is covered by E2 (MIR with overflow-checks=off)",
            "reference deque model (lo, hi) over the enabled-variant list is the oracle",
        ],
        "outside": ["histories longer than the stated depth under E1 (covered by E2's inductive step when E2 applies)",
                    "enums outside the corpus"],
    }


# ----------------------------------------------------------------------------- E2: MIR -> SMT

WEEK_TRACES = {
    # the repository's own iterator test sequences (strum_tests/tests/enum_iter.rs), transcribed for the 7-variant enum E7
    "take_from_both_sides_test": [("next", None, "Sun"), ("next_back", None, "Sat"), ("next_back", None, "Fri"), ("next", None, "Mon"),
                                  ("next", None, "Tue"), ("next", None, "Wed"), ("next_back", None, "Thu"), ("next", None, None), ("next_back", None, None)],
    "take_from_both_sides_test2": [("next", None, "Sun"), ("next_back", None, "Sat"), ("next_back", None, "Fri"), ("next", None, "Mon"),
                                   ("next", None, "Tue"), ("next", None, "Wed"), ("next", None, "Thu"), ("next_back", None, None), ("next", None, None)],
    "take_nth_test": [("next_back", None, "Sat"), ("next_back", None, "Fri"), ("next_back", None, "Thu"), ("nth", 2, "Tue"), ("nth", 1, None),
                      ("next", None, None), ("next_back", None, None)],
    "len_sequence": [("len", None, 7), ("next", None, "Sun"), ("len", None, 6), ("next_back", None, "Sat"), ("len", None, 5)],
}


def e2(run, programs, tier, seed, known):
    import mir2smt as m
    import framework as fw
    import driver
    specs = [s for s in specs_cache.get((tier, seed), [])]
    if not specs:
        return None
    t0 = __import__("time").time()
    cdir = os.path.join(run.cdir, "e2")
    os.makedirs(os.path.join(cdir, "src"), exist_ok=True)
    with open(os.path.join(cdir, "Cargo.toml"), "w") as f:
        f.write('[package]\nname = "sv_c05_e2"\nversion = "0.0.0"\nedition = "2021"\n[dependencies]\nstrum = { path = "%s/strum", features = ["derive"] }\n[workspace]\n' % fw.REPO)
    import shutil
    shutil.copy(fw.lockfile(), os.path.join(cdir, "Cargo.lock"))
    src = ["#![allow(dead_code, non_camel_case_types)]"]
    for sp in specs:
        sp2 = __import__("copy").deepcopy(sp)
        sp2.std_derives = []
        src.append(render_enum(sp2))
    with open(os.path.join(cdir, "src", "lib.rs"), "w") as f:
        f.write("\n".join(src) + "\n")
    env = dict(fw.ENV)
    env["CARGO_TARGET_DIR"] = os.path.join(fw.CACHE, "e2-target")
    mirs = {}
    for prof, flags in (("release", ["-C", "debug-assertions=off", "-C", "overflow-checks=off"]), ("dev", ["-C", "debug-assertions=on", "-C", "overflow-checks=on"])):
        os.utime(os.path.join(cdir, "src", "lib.rs"), None)
        rc, out, to, _ = fw.run(["cargo", "+nightly", "rustc", "--offline", "--lib", "--", "-Zunpretty=mir"] + flags, cwd=cdir, timeout=900, env=env, log=None)
        # stdout and stderr are merged by fw.run; the MIR is the part starting at the first `// WARNING: This output format`
        k = out.find("// WARNING: This output format")
        if rc != 0 or k < 0:
            run.machinery.append("E2: could not obtain the %s MIR dump (rc=%s)" % (prof, rc))
            with open(run.log, "a") as lf:
                lf.write(out[-3000:])
            return None
        mirs[prof] = m.parse_mir(out[k:])
    res = {"queries": 0, "nontrivial": 0, "solver_s": 0.0, "functions": set(), "samples": [], "unsupported": [], "profiles": ["release (wrapping)", "dev (overflow asserts)"],
           "translator_validation": []}
    for sp in specs:
        en = [v.ident for v in sp.variants if not v.disabled]
        dis = [v.ident for v in sp.variants if v.disabled]
        it = sp.name + "Iter"
        prog = next((p for p in programs if p.summary.startswith(render_enum(sp)[:40]) or (" enum %s" % sp.name) in p.summary), None)
        for prof in ("release", "dev"):
            try:
                vcs = m.iterator_vcs(mirs[prof], it, en, dis, len(en))
            except m.Unsupported as e:
                res["unsupported"].append("%s/%s: %s" % (sp.name, prof, e))
                continue
            for vc in vcs:
                v, mt, secs, detail = m.solve(vc["script"], want_model=True)
                tw, _, secs2, _ = m.solve(vc["twin_script"])
                res["queries"] += 2
                res["solver_s"] += secs + secs2
                for fn_ in vc["functions"]:
                    res["functions"].add(fn_ + " [MIR/%s]" % prof)
                if v == "unsat" and tw == "sat":
                    res["nontrivial"] += 1
                    if len(res["samples"]) < 3:
                        res["samples"].append({"engine": "E2", "enum": sp.name, "profile": prof, "vc": vc["name"], "verdict": "unsat", "sat_twin": "sat", "solvers": detail})
                elif v == "unsat":
                    run.machinery.append("E2 vacuity: sat-twin of %s/%s/%s is %s" % (sp.name, prof, vc["name"], tw))
                elif v == "sat":
                    vals = m.model_values(mt, ["idx", "back", "n"])
                    _e2_counterexample(run, prog, sp, prof, vc, vals, known, len(en))
                else:
                    run.machinery.append("E2 inconclusive: %s/%s/%s (%s)" % (sp.name, prof, vc["name"], detail))
        # translator validation on the repository's own test sequences (7-variant enum)
        if sp.name == "E7":
            for prof in ("release", "dev"):
                for tn, ops in WEEK_TRACES.items():
                    try:
                        m.reset_defs()
                        goal = m.concrete_trace(mirs[prof], it, en, dis, 7, ops)
                        v, _, secs, detail = m.solve(m.defs_text() + "(assert (not %s))" % goal)
                        res["queries"] += 1
                        res["solver_s"] += secs
                        res["translator_validation"].append({"trace": tn, "profile": prof, "verdict": v})
                        if v != "unsat":
                            run.machinery.append("E2 translator validation failed: the encoding of %s does not reproduce the repository test %s (%s)" % (prof, tn, v))
                    except m.Unsupported as e:
                        res["unsupported"].append("trace %s/%s: %s" % (tn, prof, e))
    res["functions"] = sorted(res["functions"])
    res["wall_s"] = round(__import__("time").time() - t0, 1)
    if res["unsupported"]:
        run.say("NOTE: E2 could not encode: %s  (not decided by E2; the property rests on E1 for these)" % "; ".join(res["unsupported"][:4]))
    return res


def _e2_counterexample(run, prog, sp, prof, vc, vals, known, C):
    """replay an E2 model through the public API natively (h_any_state: prefix reaching the cursor state, then the op)"""
    import framework as fw
    import driver
    import struct
    idx, back, n = vals.get("idx", 0), vals.get("back", 0), vals.get("n", 0)
    if idx + back <= C:
        a, b, mode = idx, back, 0
    elif idx == C and back == C:
        a, b, mode = 0, 0, 3
    elif idx == C:
        a, b, mode = 0, back, 1
    else:
        a, b, mode = idx, 0, 2
    op = {"nth": 2, "next": 0, "next_back": 1}.get(vc["op"], 0)
    u64 = lambda x: struct.pack("<Q", x & (2**64 - 1))
    vec = [u64(a), u64(b), bytes([mode]), bytes([op]), u64(n if vc["op"] == "nth" else 0), bytes([0]), u64(0), bytes([0]), u64(0)]
    what = "E2 %s VC %s: sat at idx=%d back=%d n=%d" % (prof, vc["name"], idx, back, n)
    if prog is None:
        run.machinery.append(what + " (no E1 program to replay through)")
        return
    h = next(h for h in prog.harnesses if h.name == "h_any_state")
    replay = fw.native_replay(run.cdir, run.pid, "%s::%s" % (prog.name, h.name), vec, run.log)
    test = {"check": what, "vals": vec}
    if fw.reproduces(replay):
        driver.report(run, prog, h, test, replay, known)
    else:
        run.machinery.append(what + " but the public-API replay (prefix a=%d b=%d mode=%d, op=%s) does not reproduce natively: %s" % (
            a, b, mode, vc["op"], {k: v["outcome"] for k, v in replay.items()}))


specs_cache = {}
