"""C02 - printing a variant and parsing the result returns the same variant.

sym: variant selector k over the eligible variants, payload values, index into get_serializations().
For every printing derive (Display into a buffer, AsRefStr, IntoStaticStr) the produced string is parsed
back with the real EnumString impl; the result must be variant k with default payloads."""
import copy
from strgen import *

GEN = "<T: Default + Clone + PartialEq + core::fmt::Debug>"


def U(ident, **kw):
    return Variant(ident=ident, **kw)


def pivot():
    S = []
    S.append(EnumSpec("Mix", [
        U("Red", serialize=["r", "red"]), U("Blue", fields=[Field("u8")], to_string="blu", serialize=["b"]),
        U("Green", fields=[Field("u16", name="x")], named=True), U("Yellow"), U("Off", disabled=True),
        U("LongFirst", serialize=["longest_one", "lf"]),
    ], note="serialize/to_string mixes over all kinds"))
    S.append(EnumSpec("Ci", [U("Alpha"), U("Beta", aci=False, serialize=["BeTa", "bt"]), U("Gam", to_string="GAM")], aci=True,
                      note="case-insensitive parse side"))
    S.append(EnumSpec("Gen", [U("One", fields=[Field("T")]), U("TwoWords"), U("Three", fields=[Field("T", name="t")], named=True)],
                      generics=GEN, ty_args="<u8>", subst={"T": "u8"}, serialize_all="title_case", note="generic, title_case (spaces in names)"))
    S.append(EnumSpec("WithDef", [U("Aa"), U("Other", fields=[Field("String")], default=True), U("Bb", serialize=["bb", "b"])],
                      note="default variant present (excluded from the round trip, but it would swallow a wrong name silently)"))
    S.append(EnumSpec("Langs", [U("French", to_string="Fran\u00e7ais"), U("Spanish", to_string="Espa\u00f1ol"), U("De", serialize=["de", "Deutsch"]),
                                U("Mu", serialize=["\u00b5m"], fields=[Field("u8")])],
                      note="the longest spelling in bytes is non-ASCII (char count < byte length)"))
    S.append(EnumSpec("EmptyOnly", [U("Dimensionless", serialize=[""]), U("Metre", serialize=["m"]), U("Both", serialize=[" ", "both"], fields=[Field("u8")])],
                      note="a variant whose ONLY spelling is the empty string; a one-space spelling next to a longer one"))
    S.append(EnumSpec("NumSplit", [U("Utf8"), U("Utf_8"), U("X86"), U("X_86", fields=[Field("u8")])], serialize_all="snake_case",
                      note="identifiers that differ only by an underscore between a letter and a digit (their snake names must stay distinct)"))
    S.append(EnumSpec("CaseOnly", [U("Mb", serialize=["mb"], to_string="MB"), U("Kb", serialize=["kb", "KB", "Kb"]), U("Plain")],
                      note="serialize and to_string of one variant differ only in letter case (case-sensitive enum)"))
    S.append(EnumSpec("Esc", [U("Braces", to_string="${{name}}", fields=[Field("u32", name="id")], named=True), U("Tb", serialize=["{{x}}", "x"], fields=[Field("u8")]),
                              U("Ub", to_string="u{{}}"), U("Tab", serialize=["\t\t", "tab"]), U("Quote", to_string="a\"b\\")],
                      note="doubled braces without placeholders on named / tuple / unit variants; spellings that need escaping"))
    S.append(EnumSpec("Raw", [U("r#type"), U("r#match", fields=[Field("u8")]), U("Plain"), U("r#loop", fields=[Field("u16", name="n")], named=True)],
                      note="raw identifiers as variant names, no explicit spelling"))
    S.append(EnumSpec("RawSnake", [U("r#type"), U("r#Match", fields=[Field("u8")]), U("PlainName")], serialize_all="SCREAMING_SNAKE_CASE",
                      note="raw identifiers re-cased by serialize_all"))
    S.append(EnumSpec("CiUpper", [U("At", serialize=["\u00d6sterreich"]), U("Fr", to_string="\u00c9tats-Unis", fields=[Field("u8")]), U("Es", serialize=["espa\u00f1a"]),
                                  U("Unit", to_string="\u00c5NGSTR\u00d6M", aci=True, aci_bare=True)], aci=True,
                      note="case-insensitive variants whose printed name contains non-ASCII UPPER-case letters"))
    for st in casing.ALL_STYLE_STRINGS:
        nm = "St" + "".join(ch for ch in st.title() if ch.isalnum())
        S.append(EnumSpec(nm, [U("DarkBlack"), U("HTTPServer", fields=[Field("u8")]), U("Io2Go"), U("X"), U("KeepMe", serialize=["KeepMe", "km"]),
                               U("A_b")], serialize_all=st, note="style %s" % st))
    return S


def program(spec: EnumSpec, pname, tier):
    spec = copy.deepcopy(spec)
    spec.derives = ["EnumString", "Display", "AsRefStr", "IntoStaticStr", "EnumMessage"]
    spec.std_derives = ["Debug", "Clone", "PartialEq"]
    elig = eligible_print(spec)
    E = spec.ty()
    src = render_enum(spec) + "\n"
    helper = variant_index_fn(spec) + "\n" + payload_ok_fn(spec) + "\n" + make_fn(spec, elig, "make") + "\n"
    helper += "pub fn decl_index(k: u8) -> usize { match k { %s _ => 999 } }\n" % " ".join("%d => %d," % (j, i) for j, i in enumerate(elig))
    helper += """pub fn back(s: &str, want: usize, what: &'static str) {
    match <%(E)s as core::str::FromStr>::from_str(s) {
        Ok(v) => { assert!(vidx(&v) == want, "printed name parses to a different variant"); assert!(payload_ok(&v), "round-tripped payload is not the default"); core::mem::forget(v); }
        Err(_) => { assert!(false, "printed name does not parse"); }
    }
}
""" % {"E": E}
    nel = len(elig)
    maxser = max([len(spellings(spec, spec.variants[i])) for i in elig] + [1])
    body = """    use strum::EnumMessage;
    let k = nd_u8();
    vassume((k as usize) < %(nel)d);
    let v = make(k);
    let want = decl_index(k);
    vcover!(k as usize == %(nel)d - 1, "last eligible variant");
    back(AsRef::<str>::as_ref(&v), want, "AsRefStr");
    let st: &'static str = <&'static str>::from(&v);
    back(st, want, "IntoStaticStr");
    let mut a = Buf::<32>::new();
    let _ = write!(a, "{}", v);
    assert!(!a.overflow);
    back(unsafe { core::str::from_utf8_unchecked(a.bytes()) }, want, "Display");
    let sers = v.get_serializations();
    let i = nd_usize();
    vassume(i < sers.len());
    vcover!(i + 1 == sers.len() && i > 0, "last of several serializations");
    back(sers[i], want, "get_serializations");
    core::mem::forget(v);
""" % {"nel": nel}
    ncov = 2
    if maxser < 2:
        body = body.replace('    vcover!(i + 1 == sers.len() && i > 0, "last of several serializations");\n', "")
        ncov = 1
    fns = ["<%s as FromStr>::from_str" % spec.name, "<%s as Display>::fmt" % spec.name, "<%s as AsRef<str>>::as_ref" % spec.name,
           "<&'static str as From<&%s>>::from" % spec.name, "<%s as EnumMessage>::get_serializations" % spec.name]
    hs = []
    if nel:
        hs.append(Harness(name="h_print_parse", body=body, unwind=36, kind="symbolic",
                          desc="for every eligible variant (symbolic selector and payloads): Display / AsRefStr / IntoStaticStr / every get_serializations()[i] parse back to the same variant with default payloads",
                          bound={"k": "all %d eligible variants" % nel, "i": "all serializations"}, min_covers=ncov, functions=fns))
    return Program(name=pname, enum_src=src, helper_src=helper, harnesses=hs, summary=render_enum(spec), role=spec.role, note=spec.note)


def build(tier, seed):
    rng = mk_rng(seed, "C02")
    import props.c01 as c01
    rnd = [s for s in c01.random_specs(rng, 4 if tier == "quick" else 30) if not s.generics]
    for s in rnd:
        s.prefix = None
    specs = pivot() + rnd[: (2 if tier == "quick" else 16)]
    programs = [program(s, "p%03d" % i, tier) for i, s in enumerate(specs)]
    return {
        "programs": programs,
        "harness_timeout": 300 if tier == "quick" else 1200,
        "bounds": {"selector": "every eligible variant (enabled, not default/transparent, no placeholder)", "styles": "all 16 accepted serialize_all strings"},
        "assumptions": ["program dimension enumerated; printed strings are compile-time constants, so the solver's share is selector/payload/index",
                        "no prefix (the statement excludes prefixed enums)"],
        "outside": ["enums outside the corpus"],
    }
