"""C14 - EnumMessage returns exactly the per-variant message, detail, docs and spellings.

sym: variant selector (ALL declared variants, incl. disabled), payloads, index into get_serializations().
The returned strings are compile-time constants: the solver's share is small, the program dimension carries
the claim (stated)."""
import copy
from gen import *
from framework import Harness, Program


def U(ident, **kw):
    return Variant(ident=ident, **kw)


def pivot():
    S = []
    S.append(EnumSpec("ViaMacro", [U("A", message="first"), U("B", message="m3", detailed_message="detail"), U("C", docs=[" Doc line", " second"]), U("D")],
                      macro_args=[("m", "literal", '"first"'), ("d", "literal", '"detail"'), ("doc", "literal", '" Doc line"')], macro_replace=True,
                      note="the definition is the body of a macro_rules! macro: message / detailed_message / doc texts arrive as $x:literal fragments"))
    S.append(EnumSpec("Msg", [
        U("None_"),
        U("OnlyMsg", message="m1"),
        U("OnlyDet", detailed_message="d2"),
        U("Both", message="m3", detailed_message="d3"),
        U("Dis", disabled=True, message="dm", detailed_message="dd", docs=[" disabled doc"]),
    ], note="message / detailed_message in all four presence combinations + disabled variant carrying all three"))
    S.append(EnumSpec("Docs", [
        U("NoDoc"),
        U("One", docs=[" one line"]),
        U("OneNoSpace", docs=["nospace"]),
        U("TwoSpaces", docs=["  two leading spaces"]),
        U("Multi", docs=[" first", "", "  third \"q\" \\ {b}", " last"]),
        U("EmptyOnly", docs=[""]),
        U("TwoLines", docs=[" a", " b"]),
    ], note="0..4 doc lines; 0/1/2 leading spaces; empty lines; quotes, backslash, braces"))
    S.append(EnumSpec("Kinds", [
        U("T", fields=[Field("u8"), Field("bool")], message="tuple msg", docs=[" tuple doc"]),
        U("N", fields=[Field("u16", name="x")], named=True, detailed_message="named det", serialize=["n", "nn"]),
        U("Unit", message="u", to_string="the-unit", serialize=["uu"]),
    ], serialize_all="kebab-case", note="fields + message; message next to serialize/to_string; serialize_all"))
    S.append(EnumSpec("AllMsg", [U("A", message="a", detailed_message="A", docs=[" da"]), U("B", message="b", detailed_message="B", docs=[" db"])],
                      note="every variant has every text (no wildcard arm is generated)"))
    S.append(EnumSpec("DisAttr", [
        U("A", message="ma"), U("H1", disabled=True, message="m", serialize=["h1"], flags_last=True), U("B", docs=[" db"]),
        U("H2", disabled=True, detailed_message="d2", attr_style="split"), U("C", message="mc", attr_style="trailing"),
    ], note="`disabled` after key = value items in the same attribute / split attributes / trailing comma"))
    S.append(EnumSpec("Interleaved", [
        U("A", docs=[" Get ready.", " The light is about to change."], message="amber", docs_interleave=True),
        U("B", docs=[" one", "", " three"], raw_attrs=["#[allow(dead_code)]"], docs_interleave=True, serialize=["b", "bee"]),
        U("C", docs=[" only"], message="c", docs_interleave=True),
    ], note="doc lines split by other attributes (strum / allow) between them"))
    S.append(EnumSpec("Prefixed", [U("DarkRed"), U("Blue", serialize=["b", "blue"], message="m"), U("Off", disabled=True)], prefix="colour/",
                      serialize_all="kebab-case", note="enum-wide prefix: get_serializations lists the PARSE spellings, which never carry the prefix"))
    S.append(EnumSpec("Edge", [
        U("Block", docs=[" first\n second"]), U("BlockNl", docs=["a\n"]), U("EmptyDet", message="m", detailed_message=""),
        U("OnlyEmptyDet", detailed_message=""), U("EmptyMsg", message=""), U("SpaceDet", detailed_message=" "),
    ], note="one doc attribute containing a line break (block comment shape); empty-string message / detailed_message"))
    S.append(EnumSpec("DisEnds", [U("First", disabled=True, message="x"), U("Mid", message="mid", docs=[" md"]), U("Last", disabled=True, docs=[" l"])],
                      serialize_all="SCREAMING_SNAKE_CASE", note="disabled in first and last position, serialize_all on their serializations"))
    return S


def random_specs(rng, n):
    out = []
    for k in range(n):
        vs = []
        for i, ident in enumerate(rand_idents(rng, rng.randint(1, 5))):
            v = Variant(ident=ident, disabled=rng.random() < 0.2)
            if rng.random() < 0.5:
                v.message = "msg%d" % i
            if rng.random() < 0.4:
                v.detailed_message = "det%d é" % i
            nd_ = rng.choice([0, 0, 1, 2, 3])
            v.docs = [rng.choice(["", " ", " x%d" % i, "  y", "z"]) for _ in range(nd_)]
            if rng.random() < 0.3:
                v.serialize = ["s%d" % i, "t%d_" % i][: rng.randint(1, 2)]
            if rng.random() < 0.3:
                v.fields = [Field("u8")]
            vs.append(v)
        out.append(decorate(rng, EnumSpec("R%d" % k, vs, serialize_all=rng.choice([None] + casing.ALL_STYLE_STRINGS), role="random", note="random"), allow_docs=False, allow_messages=False))
    return out


def program(spec: EnumSpec, pname, tier):
    spec = copy.deepcopy(spec)
    spec.derives = ["EnumMessage"]
    spec.std_derives = ["Debug", "Clone", "PartialEq"]
    E = spec.ty()
    nv = len(spec.variants)
    msg = [None if v.disabled else v.message for v in spec.variants]
    det = [None if v.disabled else (v.detailed_message if v.detailed_message is not None else v.message) for v in spec.variants]
    doc = [None if v.disabled else doc_text(v) for v in spec.variants]
    src = render_enum(spec) + "\n"
    helper = make_fn(spec, None, "make") + "\n" + opt_bytes_table_fn("exp_msg", msg) + "\n" + opt_bytes_table_fn("exp_det", det) + "\n" + \
        opt_bytes_table_fn("exp_doc", doc) + "\n"
    sers = [spellings(spec, v) for v in spec.variants]
    helper += "pub fn exp_nser(k: usize) -> usize { match k { %s _ => 0 } }\n" % " ".join("%d => %d," % (i, len(s)) for i, s in enumerate(sers))
    helper += "pub fn exp_ser(k: usize, i: usize) -> &'static [u8] { match (k, i) { %s _ => b\"<none>\" } }\n" % " ".join(
        "(%d, %d) => %s," % (k, i, rust_bytes(x.encode())) for k, s in enumerate(sers) for i, x in enumerate(s))
    helper += """pub fn same_opt(got: Option<&'static str>, exp: Option<&'static [u8]>) -> bool {
    match (got, exp) { (Some(a), Some(b)) => beq(a.as_bytes(), b), (None, None) => true, _ => false }
}
"""
    body = """    use strum::EnumMessage;
    let k = nd_u8();
    vassume((k as usize) < %(nv)d);
    let v = make(k);
    let ku = k as usize;
%(covers)s
    assert!(same_opt(v.get_message(), exp_msg(ku)), "get_message is not the declared message / None");
    assert!(same_opt(v.get_detailed_message(), exp_det(ku)), "get_detailed_message is not detailed_message, falling back to message, else None");
    assert!(same_opt(v.get_documentation(), exp_doc(ku)), "get_documentation is not the doc comment (one leading space stripped per line; newline-terminated when several)");
    let sers = v.get_serializations();
    assert!(sers.len() == exp_nser(ku), "get_serializations has the wrong number of spellings");
    let i = nd_usize();
    vassume(i < sers.len());
    assert!(beq(sers[i].as_bytes(), exp_ser(ku, i)), "get_serializations()[i] is not the i-th spelling");
"""
    covers = ['    vcover!(ku + 1 == %d, "last declared variant");' % nv]
    for nm, tbl in (("message", msg), ("detailed message", det), ("documentation", doc)):
        if any(x is not None for x in tbl):
            covers.append('    vcover!(exp_%s(ku).is_some(), "a variant with a %s");' % ({"message": "msg", "detailed message": "det", "documentation": "doc"}[nm], nm))
    if any(v.disabled for v in spec.variants):
        covers.append("    vcover!(%s, \"a disabled variant\");" % " || ".join("ku == %d" % i for i, v in enumerate(spec.variants) if v.disabled))
    body = body % {"nv": nv, "covers": "\n".join(covers)}
    fns = ["<%s as EnumMessage>::get_message" % spec.name, "<%s as EnumMessage>::get_detailed_message" % spec.name,
           "<%s as EnumMessage>::get_documentation" % spec.name, "<%s as EnumMessage>::get_serializations" % spec.name]
    hs = [Harness(name="h_messages", body=body, unwind=64, kind="symbolic",
                  desc="for every declared variant (symbolic selector/payloads): the three getters and every get_serializations()[i] equal the declared texts",
                  bound={"k": "all %d declared variants" % nv, "i": "all spellings"}, min_covers=len(covers), functions=fns)]
    return Program(name=pname, enum_src=src, helper_src=helper, harnesses=hs, summary=render_enum(spec), role=spec.role, note=spec.note)


def build(tier, seed):
    rng = mk_rng(seed, "C14")
    specs = pivot() + random_specs(rng, 8 if tier == "quick" else 24)
    programs = [program(s, "p%03d" % i, tier) for i, s in enumerate(specs)]
    return {
        "programs": programs,
        "harness_timeout": 300 if tier == "quick" else 1200,
        "bounds": {"selector": "every declared variant", "texts": "<= 62 bytes"},
        "assumptions": ["program dimension enumerated; outputs are compile-time constants, so the solver's share is selector/payload/index",
                        "doc comments are emitted as #[doc = \"...\"] attributes (what `///` desugars to)"],
        "outside": ["enums outside the corpus"],
    }
