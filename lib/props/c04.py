"""C04 - EnumIter yields every enabled variant exactly once, in declaration order.

sym: index i (and j).  E::iter().nth(i) is the i-th enabled variant of refsem's list with default payloads for
i < COUNT and None for every other i: usize ("exactly these, in order"); distinct indices give distinct
variants; rev().nth(i) is element COUNT-1-i; len == COUNT == E::COUNT; no disabled variant is ever yielded.
A full forward and a full backward traversal (next / next_back until None) are compared with the list too."""
import copy
from gen import *
from framework import Harness, Program

GEN = "<T: Default + Clone + PartialEq + core::fmt::Debug>"
ODD = """#[derive(Debug, Clone, Copy, PartialEq)]
pub struct Odd(pub u32);
impl Default for Odd { fn default() -> Self { Odd(0) } }
impl Odd { pub const fn default() -> Odd { Odd(100) } }      // inherent preset, NOT the Default impl
"""


PARSE_ONLY = """pub fn po_seven() -> u8 { 7 }
pub fn po_word() -> u16 { 0x1234 }
pub fn po_name() -> String { String::from("anonymous") }
"""


def U(ident, **kw):
    return Variant(ident=ident, **kw)


def pivot():
    S = []
    T3 = lambda: [Field("u8"), Field("String")]
    S.append(EnumSpec("NoDis", [U("A"), U("B", fields=T3()), U("C", fields=[Field("u16", name="x"), Field("bool", name="y")], named=True), U("D")],
                      note="no disabled variant, all kinds"))
    S.append(EnumSpec("DisFirst", [U("H", disabled=True), U("A"), U("B", fields=[Field("u8")])], note="disabled first"))
    S.append(EnumSpec("DisMid", [U("A"), U("H", disabled=True, fields=[Field("u8")]), U("B"), U("C")], note="disabled in the middle (index hole)"))
    S.append(EnumSpec("DisLast", [U("A"), U("B"), U("H", disabled=True)], note="disabled last"))
    S.append(EnumSpec("DisAdj", [U("A"), U("H1", disabled=True), U("H2", disabled=True), U("B", fields=[Field("u32", name="k")], named=True), U("C")],
                      note="two adjacent disabled"))
    S.append(EnumSpec("OddPayload", [U("A", fields=[Field("Odd")]), U("B", fields=[Field("Odd", name="g"), Field("u8", name="x")], named=True), U("C")],
                      note="payload type that has BOTH a Default impl and an inherent `fn default()` returning another value"))
    S.append(EnumSpec("ParseOnly", [U("Vol", fields=[Field("u8")], default_with="po_seven"),
                                    U("Login", fields=[Field("String", name="user", default_with="po_name"), Field("u16", name="port", default_with="po_word"), Field("bool", name="tls")], named=True),
                                    U("Named", serialize=["n", "nm"], to_string="named", aci=True, fields=[Field("u16")]),
                                    U("Rest", default=True, fields=[Field("String")]), U("H", disabled=True, fields=[Field("u8")], default_with="po_seven"), U("Last")],
                      note="attributes that only concern parsing / printing (default_with on a tuple variant and on named fields, default, serialize, to_string, ascii_case_insensitive): iterated payloads stay Default::default()"))
    S.append(EnumSpec("DisAll", [U("H1", disabled=True), U("H2", disabled=True)], note="all disabled"))
    S.append(EnumSpec("Zero", [], note="no variants"))
    S.append(EnumSpec("Gen", [U("One", fields=[Field("T")]), U("H", disabled=True), U("Two", fields=[Field("T", name="t"), Field("u8", name="u")], named=True), U("Three")],
                      generics=GEN, ty_args="<u16>", subst={"T": "u16"}, note="type-generic with a disabled variant"))
    S.append(EnumSpec("DisAttr", [
        U("A"), U("H1", disabled=True, message="m", serialize=["h1"]), U("B"),
        U("H2", disabled=True, message="m2", flags_last=True), U("C"),
        U("H3", disabled=True, attr_style="trailing"), U("D"),
        U("H4", disabled=True, serialize=["x", "yy"], attr_style="split"), U("E"),
    ], note="`disabled` sharing one #[strum(..)] attribute with key = value items (before and after them), with a trailing comma, and split over attributes"))
    for n in (256, 257):
        S.append(EnumSpec("Big%d" % n, [U("V%d" % i, disabled=(i in (7, n + 1))) for i in range(n + 2)],
                          note="%d enabled variants (+2 disabled): cursor / index arithmetic at the 8-bit boundary" % n))
    S.append(EnumSpec("Eight", [U("V%d" % i, disabled=(i in (0, 4, 9))) for i in range(11)], note="8 enabled of 11"))
    return S


def random_specs(rng, n):
    out = []
    for k in range(n):
        vs = []
        for ident in rand_idents(rng, rng.randint(0, 9)):
            v = Variant(ident=ident, disabled=rng.random() < 0.3)
            r = rng.random()
            if r < 0.3:
                v.fields = [Field(rng.choice(["u8", "bool", "u16", "String"])) for _ in range(rng.randint(1, 2))]
            elif r < 0.4:
                v.fields = [Field("u8", name="fld")]
                v.named = True
            vs.append(v)
        out.append(decorate(rng, EnumSpec("R%d" % k, vs, role="random", note="random")))
    return out


CONST_GEN_SRC = """#[derive(Debug, Clone, PartialEq, strum::EnumIter, strum::EnumCount)]
pub enum Cg<const K: usize> { A(Wrap<K>), #[strum(disabled)] H, B, C { w: Wrap<K> } }
#[derive(Debug, Clone, PartialEq, Default)]
pub struct Wrap<const K: usize>;
"""


def program(spec: EnumSpec, pname, tier):
    spec = copy.deepcopy(spec)
    spec.derives = ["EnumIter", "EnumCount"]
    spec.std_derives = ["Debug", "Clone", "PartialEq"]
    E = spec.ty()
    en = [i for i, v in enumerate(spec.variants) if not v.disabled]
    C = len(en)
    src = (ODD if spec.name == "OddPayload" else "") + (PARSE_ONLY if spec.name == "ParseOnly" else "") + render_enum(spec) + "\n"
    helper = variant_index_fn(spec) + "\n" + payload_ok_fn(spec) + "\n"
    helper += "pub const C: usize = %d;\n" % C
    helper += "pub fn decl_of_enabled(j: usize) -> usize { match j { %s _ => usize::MAX } }\n" % " ".join("%d => %d," % (j, i) for j, i in enumerate(en))
    helper += """pub fn check(item: &Option<%(E)s>, pos: Option<usize>) {
    match (item, pos) {
        (Some(v), Some(j)) => {
            assert!(vidx(v) == decl_of_enabled(j), "iterator yields another variant than the j-th enabled one (order / disabled variants)");
            assert!(payload_ok(v), "iterated payload is not Default::default()");
        }
        (None, None) => {}
        (Some(_), None) => { assert!(false, "iterator yields more items than there are enabled variants"); }
        (None, Some(_)) => { assert!(false, "iterator stops before every enabled variant was yielded"); }
    }
}
""" % {"E": E}
    body = """    use strum::{IntoEnumIterator, EnumCount};
    assert!(<%(E)s as EnumCount>::COUNT == C, "COUNT is not the number of enabled variants");
    assert!(<%(E)s as IntoEnumIterator>::iter().len() == C, "iter().len() != COUNT");
    let i = nd_usize();
    let j = nd_usize();
    vcover!(i == C, "first index past the end");
    vcover!(i == usize::MAX, "largest index");
    let a = <%(E)s as IntoEnumIterator>::iter().nth(i);
    check(&a, if i < C { Some(i) } else { None });
    let b = <%(E)s as IntoEnumIterator>::iter().nth(j);
    if i != j { if let (Some(x), Some(y)) = (&a, &b) { assert!(vidx(x) != vidx(y), "the same variant is yielded at two positions"); } }
    let r = <%(E)s as IntoEnumIterator>::iter().rev().nth(i);
    check(&r, if i < C { Some(C.wrapping_sub(1).wrapping_sub(i)) } else { None });
    core::mem::forget(a); core::mem::forget(b); core::mem::forget(r);
""" % {"E": E}
    fns = ["%sIter::nth" % spec.name, "%sIter::next_back" % spec.name, "%sIter::get" % spec.name, "<%s as EnumCount>::COUNT" % spec.name]
    if C > 64:
        # large enums: the reverse accessor is a COUNT-iteration loop over a COUNT-arm match (CBMC runs out of memory);
        # the forward accessor is loop-free, the complete backward traversal below is concrete
        body = """    use strum::{IntoEnumIterator, EnumCount};
    assert!(<%(E)s as EnumCount>::COUNT == C, "COUNT is not the number of enabled variants");
    assert!(<%(E)s as IntoEnumIterator>::iter().len() == C, "iter().len() != COUNT");
    let i = nd_usize();
    vcover!(i == C, "first index past the end");
    vcover!(i == usize::MAX, "largest index");
    let a = <%(E)s as IntoEnumIterator>::iter().nth(i);
    check(&a, if i < C { Some(i) } else { None });
    let mut it = <%(E)s as IntoEnumIterator>::iter();
    let _ = it.nth(i);
    assert!(it.len() == (if i < C { C - 1 - i } else { 0 }), "len() after nth(i) is wrong");
    let b = it.next();
    check(&b, if i < C && i + 1 < C { Some(i + 1) } else { None });
""" % {"E": E}
    hs = [Harness(name="h_nth_is_ith_enabled", body=body, unwind=(C + 3 if C <= 64 else 8), kind="symbolic",
                  desc="iter().nth(i) / rev().nth(i) vs the declared list of enabled variants for EVERY i: usize; distinct positions give distinct variants; len == COUNT",
                  bound={"i": "all of usize", "COUNT": C}, min_covers=2, functions=fns)]
    body = """    use strum::IntoEnumIterator;
    let mut it = <%(E)s as IntoEnumIterator>::iter();
    let mut n = 0usize;
    loop {
        let x = it.next();
        if x.is_none() { break; }
        check(&x, if n < C { Some(n) } else { None });
        core::mem::forget(x);
        n += 1;
        if n > C + 1 { break; }
    }
    assert!(n == C, "a forward traversal does not yield exactly COUNT items");
    vcover!(n == C, "traversal finished");
    let mut bk = <%(E)s as IntoEnumIterator>::iter();
    let mut m = 0usize;
    loop {
        let x = bk.next_back();
        if x.is_none() { break; }
        check(&x, if m < C { Some(C.wrapping_sub(1).wrapping_sub(m)) } else { None });
        core::mem::forget(x);
        m += 1;
        if m > C + 1 { break; }
    }
    assert!(m == C, "a backward traversal does not yield exactly COUNT items");
""" % {"E": E}
    hs.append(Harness(name="h_full_traversal", body=body, unwind=C + 4, kind="witness",
                      desc="complete forward and backward traversal (next / next_back until None) equals the enabled list and its reverse (no free variable)",
                      bound={"COUNT": C}, functions=fns))
    return Program(name=pname, enum_src=src, helper_src=helper, harnesses=hs, summary=render_enum(spec), role=spec.role, note=spec.note)


def build(tier, seed):
    rng = mk_rng(seed, "C04")
    specs = pivot() + random_specs(rng, 6 if tier == "quick" else 24)
    programs = [program(s, "p%03d" % i, tier) for i, s in enumerate(specs)]
    cg_body = """    use strum::{IntoEnumIterator, EnumCount};
    type E = Cg<3>;
    assert!(<E as EnumCount>::COUNT == 3 && <E as IntoEnumIterator>::iter().len() == 3);
    let i = nd_usize();
    vcover!(i == 2, "last");
    let x = <E as IntoEnumIterator>::iter().nth(i);
    match (i, x) {
        (0, Some(Cg::A(w))) => assert!(w == Wrap::<3>),
        (1, Some(Cg::B)) => {}
        (2, Some(Cg::C { w })) => assert!(w == Wrap::<3>),
        (n, None) => assert!(n >= 3, "iterator stops early"),
        _ => assert!(false, "const-generic enum: wrong item"),
    }
"""
    programs.append(Program(name="pcg", enum_src=CONST_GEN_SRC, harnesses=[
        Harness(name="h_const_generic", body=cg_body, unwind=8, kind="symbolic", desc="const-generic enum with a disabled variant: nth(i) for every i",
                bound={"i": "all of usize"}, min_covers=1, functions=["CgIter::nth"])], summary=CONST_GEN_SRC, note="const generic parameter"))
    return {
        "programs": programs,
        "harness_timeout": 300 if tier == "quick" else 1200,
        "bounds": {"i": "every usize", "variants": "0..11 declared, 0..8 enabled"},
        "assumptions": ["program dimension enumerated", "nth is only the accessor here; nth's own contract for large arguments is C05's"],
        "outside": ["enums outside the corpus"],
    }
