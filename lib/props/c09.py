"""C09 - EnumDiscriminants mirrors the enum: same variants, order, repr, discriminants.

sym: variant selector k, all payloads.  D::from(&e), D::from(e.clone()), e.discriminant() agree and are the
variant named like e's (Debug name), `d as R` is rustc's discriminant of e's variant (refsem table and, for
primitive-repr enums, the real tag read through the guaranteed layout); requested derives take effect on D
under its (overridden) name."""
import copy
from gen import *
from framework import Harness, Program

GEN = "<T: Default + Clone + PartialEq + core::fmt::Debug>"


def U(ident, **kw):
    return Variant(ident=ident, **kw)


class DSpec:
    def __init__(self, spec, dname=None, vis=None, dderives=(), into_disc=True, extra=(), checks=(), pre=""):
        self.spec, self.dname, self.vis, self.dderives, self.into_disc, self.extra, self.checks = spec, dname, vis, list(dderives), into_disc, list(extra), set(checks)
        self.pre = pre            # items the discriminant expressions refer to (constants)


def pivot():
    S = []
    S.append(DSpec(EnumSpec("Simple", [U("A"), U("B", fields=[Field("u8")]), U("C", fields=[Field("u16", name="x")], named=True), U("D")],
                            note="all kinds, default name, no repr")))
    S.append(DSpec(EnumSpec("Rep", [U("X", disc="-3", disc_val=-3), U("Y", fields=[Field("u8"), Field("bool")]), U("Z", fields=[Field("u8", name="x")], named=True, disc="10", disc_val=10), U("W")],
                            repr="i16", note="repr(i16), negative/explicit discriminants on data-carrying variants"),
                   dname="Kind", vis="pub", dderives=["strum::EnumIter", "strum::EnumString", "Hash", "PartialOrd", "Ord"],
                   checks={"iter", "fromstr", "ord", "layout"}))
    S.append(DSpec(EnumSpec("Gen", [U("One", fields=[Field("T")]), U("Two", fields=[Field("T", name="a"), Field("u8", name="b")], named=True), U("Three")],
                            generics=GEN, ty_args="<u16>", subst={"T": "u16"}, note="generic"), dderives=["strum::EnumIter"], checks={"iter"}))
    S.append(DSpec(EnumSpec("Lt", [U("S", fields=[Field("&'a str")]), U("N", fields=[Field("u8")]), U("U")], generics="<'a>", ty_args="<'static>",
                            subst={"'a": "'static"}, note="lifetime parameter")))
    S.append(DSpec(EnumSpec("Wh", [U("P", fields=[Field("T")]), U("Q")], generics="<T>", where="where T: Default + Clone + PartialEq + core::fmt::Debug",
                            ty_args="<u8>", subst={"T": "u8"}, note="where clause")))
    S.append(DSpec(EnumSpec("U8", [U("A", disc="200", disc_val=200), U("B"), U("C", disc="1 << 3", disc_val=8), U("D", fields=[Field("u32")])],
                            repr="u8", note="repr(u8), expression-valued discriminant"), dname="U8Kind", dderives=["strum::EnumIter", "PartialOrd"],
                   checks={"iter", "ord", "layout"}))
    S.append(DSpec(EnumSpec("ViaMacro", [U("Ctrl", fields=[Field("u8")], disc="$base * 2", disc_val=6), U("Next"), U("Status", disc="$base * 4 + $off", disc_val=15),
                                         U("Lit", fields=[Field("u8", name="x")], named=True, disc="$lit", disc_val=40)],
                            repr="u16", macro_args=[("base", "expr", "1 + 2"), ("off", "expr", "7 - 4"), ("lit", "literal", "40")],
                            note="the enum is the body of a macro_rules! macro; discriminants are built from $x:expr fragments (operator precedence of the substituted expression)"),
                   dderives=["strum::EnumIter"], checks={"iter", "layout"}))
    S.append(DSpec(EnumSpec("StaleConst", [U("Hello", disc="HELLO", disc_val=0x40), U("Ack", fields=[Field("u16")], disc="1", disc_val=1),
                                           U("Data", fields=[Field("u8", name="x")], named=True, disc="2", disc_val=2), U("Tail")],
                            repr="u8", note="a constant-valued discriminant followed by literals that restart the count at 1, 2"), pre="pub const HELLO: u8 = 0x40;\n",
                   checks={"layout"}))
    S.append(DSpec(EnumSpec("StaleExpr", [U("A", disc="1 << 4", disc_val=16), U("B", disc="1", disc_val=1), U("C", disc="2", disc_val=2), U("D", fields=[Field("u8")]),
                                          U("E", disc="42 + 100", disc_val=142), U("F", disc="5", disc_val=5), U("G", disc="0", disc_val=0)],
                            repr="i16", note="expression-valued discriminants followed by small literals equal to the variant's position / position since the expression"),
                   dderives=["strum::EnumIter"], checks={"iter", "layout"}))
    S.append(DSpec(EnumSpec("PassRepr", [U("Nop"), U("Push", fields=[Field("u8")]), U("Pop")], note="strum_discriminants(repr(u16)) with NO derive(..) request: the pass-through must still reach the generated enum"),
                   dname="OpCode", extra=["#[strum_discriminants(repr(u16))]"], checks={"size2"}))
    S.append(DSpec(EnumSpec("PassCfg", [U("A", fields=[Field("bool")]), U("B")], note="only pass-through attributes (cfg_attr(all(), repr(u32)), allow(..)), no name/vis/derive"),
                   extra=["#[strum_discriminants(cfg_attr(all(), repr(u32)))]", "#[strum_discriminants(allow(dead_code))]"], checks={"size4"}))
    S.append(DSpec(EnumSpec("ReprC", [U("A"), U("B", fields=[Field("u8")]), U("C", fields=[Field("u32", name="x")], named=True)], repr="C",
                            note="#[repr(C)] (no primitive integer): the discriminant enum must be repr(C) too (C-enum size)"),
                   checks={"layout_c"}))
    S.append(DSpec(EnumSpec("ReprCAlign", [U("A"), U("B", fields=[Field("u8")])], repr="C, align(8)", note="#[repr(C, align(8))]"),
                   checks={"layout_c_align8"}))
    S.append(DSpec(EnumSpec("Priv", [U("A", fields=[Field("u8")]), U("B")], note="vis(pub(crate)) -> IntoDiscriminant is not implemented"),
                   dname="PrivD", vis="pub(crate)", into_disc=False))
    S.append(DSpec(EnumSpec("Pass", [U("A", raw_attrs=['#[strum_discriminants(strum(serialize = "aaa"))]']), U("B", fields=[Field("u8")])],
                            note="per-variant pass-through attribute + derive(EnumString) on the discriminant"),
                   dname="PassD", dderives=["strum::EnumString"], checks={"passthrough"}))
    S.append(DSpec(EnumSpec("PassDisc", [U("Ok", disc="200", disc_val=200, raw_attrs=['#[strum_discriminants(strum(message = "fine"))]']),
                                         U("Next"), U("Key", fields=[Field("u8")], disc="40", disc_val=40, raw_attrs=['#[strum_discriminants(strum(serialize = "k"))]']),
                                         U("Last")], repr="i16",
                            note="variants carrying BOTH an explicit discriminant and a variant-level #[strum_discriminants(..)] attribute"),
                   dname="PassDiscK", dderives=["strum::EnumMessage", "strum::EnumString", "strum::EnumIter"], checks={"iter", "layout"}))
    S.append(DSpec(EnumSpec("ManyDerives", [U("A"), U("B", fields=[Field("u8")])], note="several module-qualified derive paths, split over two attributes"),
                   dderives=["strum::EnumIter", "strum::EnumCount", "strum::AsRefStr"], extra=["#[strum_discriminants(derive(core::hash::Hash, strum::VariantNames))]"],
                   checks={"iter", "many"}))
    S.append(DSpec(EnumSpec("TwoRepr", [U("A"), U("B", fields=[Field("u8")]), U("C", disc="9", disc_val=9)], repr="u8", raw_attrs=["#[repr(C)]"],
                            note="#[repr(C)] #[repr(u8)] as two attributes: the discriminant enum must carry the integer repr"),
                   checks={"size1"}))
    S.append(DSpec(EnumSpec("DocPass", [U("Rect", fields=[Field("u8")], raw_attrs=['#[strum_discriminants(doc = " Kind tag for rectangles")]']),
                                        U("Circle", raw_attrs=['#[strum_discriminants(strum(message = "round"))]'])],
                            note="name-value pass-through (doc = ..) and list pass-through on variants, observed through EnumMessage on the discriminant enum"),
                   dname="DocKind", dderives=["strum::EnumMessage"], checks={"docpass"}))
    S.append(DSpec(EnumSpec("Dis", [U("A"), U("H", disabled=True, fields=[Field("u8")]), U("B")], note="a strum(disabled) variant is still mirrored"),
                   dderives=["strum::EnumIter"], checks={"iter"}))
    return S


def random_specs(rng, n):
    out = []
    for k in range(n):
        R = rng.choice([None, "u8", "i8", "u16", "i32", "u64", "isize"])
        lo, hi = RANGE[R or "isize"]
        lo, hi = max(lo, -1000), min(hi, 1000)
        vs, used, prev = [], set(), None
        for ident in rand_idents(rng, rng.randint(1, 6)):
            v = Variant(ident=ident)
            r = rng.random()
            if r < 0.3:
                v.fields = [Field(rng.choice(["u8", "u16", "bool"])) for _ in range(rng.randint(1, 2))]
            elif r < 0.45:
                v.fields = [Field("u8", name="fld")]
                v.named = True
            cur = 0 if prev is None else prev + 1
            if rng.random() < 0.35 or cur in used or cur > hi:
                cand = [x for x in [rng.randint(lo, hi) for _ in range(30)] if x not in used and (x + 1) not in used]
                if cand:
                    cur = cand[0]
                    v.disc, v.disc_val = str(cur), cur
                    form = rng.random()
                    if cur >= 2 and form < 0.25:
                        a = rng.randint(1, cur - 1)
                        v.disc = "%d + %d" % (a, cur - a)            # expression-valued, same value
                    elif cur > 0 and cur & (cur - 1) == 0 and form < 0.6:
                        v.disc = "1 << %d" % (cur.bit_length() - 1)
            if R is None and v.fields and v.disc is not None:
                v.disc, v.disc_val = None, None   # explicit discriminants on data-carrying variants need a primitive repr
                cur = 0 if prev is None else prev + 1
            if cur in used:
                continue
            used.add(cur)
            prev = cur
            vs.append(v)
        if not vs:
            continue
        if R is None and any(v.fields for v in vs):
            # rustc: explicit discriminants on an enum with non-unit variants need a primitive #[repr]
            for v in vs:
                v.disc, v.disc_val = None, None
        out.append(DSpec(decorate(rng, EnumSpec("R%d" % k, vs, repr=R, role="random", note="random")), dderives=["strum::EnumIter"], checks={"iter"} | ({"layout"} if R else set())))
    return out


def program(ds: DSpec, pname, tier):
    spec = copy.deepcopy(ds.spec)
    spec.derives = ["EnumDiscriminants"]
    spec.std_derives = ["Debug", "Clone", "PartialEq"]
    D = ds.dname or (spec.name + "Discriminants")
    items = []
    if ds.dname:
        items.append("name(%s)" % ds.dname)
    if ds.vis:
        items.append("vis(%s)" % ds.vis)
    if ds.dderives:
        items.append("derive(%s)" % ", ".join(ds.dderives))
    spec.raw_attrs = list(spec.raw_attrs) + (["#[strum_discriminants(%s)]" % ", ".join(items)] if items else []) + list(ds.extra)
    E = spec.ty()
    R = spec.repr if spec.repr in INT_TYPES else "isize"
    nv = len(spec.variants)
    discs = discriminants(spec)
    src = ds.pre + render_enum(spec) + "\n"
    helper = make_fn(spec, None, "make") + "\n" + variant_index_fn(spec) + "\n"
    helper += "pub fn disc_tbl(k: usize) -> %s { match k { %s _ => 0 } }\n" % (R, " ".join("%d => %s," % (i, int_lit(d, R)) for i, d in enumerate(discs)))
    helper += bytes_table_fn("ident_tbl", [v.ident for v in spec.variants]) + "\n"
    helper += "pub fn dvar(k: usize) -> %s { match k { %s _ => unreachable!() } }\n" % (D, " ".join("%d => %s::%s," % (i, D, v.ident) for i, v in enumerate(spec.variants)))
    lines = []
    lines.append("    let k = nd_u8();")
    lines.append("    vassume((k as usize) < %d);" % nv)
    lines.append("    let e: %s = make(k);" % E)
    lines.append("    let ku = k as usize;")
    lines.append('    vcover!(ku + 1 == %d, "last declared variant");' % nv)
    lines.append("    let d_ref: %s = <%s as From<&%s>>::from(&e);" % (D, D, E))
    lines.append("    let d_val: %s = <%s as From<%s>>::from(e.clone());" % (D, D, E))
    lines.append('    assert!(d_ref == d_val, "From<&E> and From<E> disagree");')
    if ds.into_disc:
        lines.append("    let d_tr: %s = strum::IntoDiscriminant::discriminant(&e);" % D)
        lines.append('    assert!(d_tr == d_ref, "IntoDiscriminant::discriminant and From<&E> disagree");')
    lines.append('    assert!(d_ref == dvar(ku), "the discriminant is not the variant with the value\'s variant name");')
    lines.append("    let mut nm = Buf::<24>::new();")
    lines.append('    let _ = write!(nm, "{:?}", d_ref);')
    lines.append('    assert!(beq(nm.bytes(), ident_tbl(ku)), "the discriminant variant is not named like the value\'s variant");')
    lines.append('    assert!(d_ref as %s == disc_tbl(ku), "the discriminant\'s integer value is not the value\'s discriminant");' % R)
    lines.append("    let copy = d_ref; let _ = copy.clone();   // Clone + Copy are always derived")
    if "layout" in ds.checks:
        lines.append("    assert!(core::mem::size_of::<%s>() == core::mem::size_of::<%s>(), \"#[repr] was not copied to the discriminant enum\");" % (D, R))
        lines.append("    let tag: %s = unsafe { *(&e as *const %s as *const %s) };   // primitive-repr enums start with their tag" % (R, E, R))
        lines.append('    assert!(tag == d_ref as %s, "the discriminant value differs from the real tag of the value");' % R)
    if "size1" in ds.checks:
        lines.append('    assert!(core::mem::size_of::<%s>() == 1, "the integer #[repr] given in a second attribute was not mirrored");' % D)
    for nb in (2, 4):
        if "size%d" % nb in ds.checks:
            lines.append('    assert!(core::mem::size_of::<%s>() == %d, "a #[repr] requested through strum_discriminants(..) did not reach the discriminant enum");' % (D, nb))
    if "docpass" in ds.checks:
        lines.append("    { use strum::EnumMessage;")
        lines.append('      assert!(%s::Rect.get_documentation() == Some("Kind tag for rectangles"), "variant-level strum_discriminants(doc = ..) had no effect");' % D)
        lines.append('      assert!(%s::Circle.get_message() == Some("round"), "variant-level strum_discriminants(strum(message = ..)) had no effect"); }' % D)
    if "layout_c" in ds.checks:
        lines.append('    assert!(core::mem::size_of::<%s>() == core::mem::size_of::<core::ffi::c_int>(), "#[repr(C)] was not copied to the discriminant enum");' % D)
    if "layout_c_align8" in ds.checks:
        lines.append('    assert!(core::mem::align_of::<%s>() == 8, "#[repr(C, align(8))] was not copied to the discriminant enum");' % D)
    if "iter" in ds.checks:
        lines.append("    let it = <%s as strum::IntoEnumIterator>::iter().nth(ku);" % D)
        lines.append('    assert!(it == Some(d_ref), "EnumIter derived on the discriminant enum is not in declaration order");')
        lines.append("    assert!(<%s as strum::IntoEnumIterator>::iter().len() == %d);" % (D, nv))
    if "ord" in ds.checks:
        lines.append("    let k2 = nd_u8(); vassume((k2 as usize) < %d);" % nv)
        lines.append("    let d2 = dvar(k2 as usize);")
        lines.append('    assert!((d_ref < d2) == ((d_ref as %s) < (d2 as %s)), "PartialOrd on the discriminant enum is not discriminant order");' % (R, R))
    if "fromstr" in ds.checks:
        lines.append("    let back = <%s as core::str::FromStr>::from_str(unsafe { core::str::from_utf8_unchecked(ident_tbl(ku)) });" % D)
        lines.append('    assert!(back == Ok(d_ref), "EnumString derived on the discriminant enum does not round-trip the variant name");')
    if "passthrough" in ds.checks:
        lines.append('    assert!(<%s as core::str::FromStr>::from_str("aaa") == Ok(%s::A), "variant-level pass-through attribute had no effect");' % (D, D))
        lines.append('    assert!(<%s as core::str::FromStr>::from_str("A").is_err(), "variant-level pass-through attribute had no effect");' % D)
    lines.append("    core::mem::forget(e);")
    fns = ["<%s as From<&%s>>::from" % (D, spec.name), "<%s as From<%s>>::from" % (D, spec.name)] + \
          (["<%s as IntoDiscriminant>::discriminant" % spec.name] if ds.into_disc else [])
    hs = [Harness(name="h_discriminants", body="\n".join(lines), unwind=26, kind="symbolic",
                  desc="for every declared variant with symbolic payloads: From<E>, From<&E>, discriminant() agree, name and integer value mirror the enum; checks: %s" % (",".join(sorted(ds.checks)) or "core"),
                  bound={"k": "all %d declared variants" % nv, "payloads": "symbolic ints/bools"}, min_covers=1, functions=fns)]
    api = "pub fn api_names() {\n    let _d: Option<%s> = None;\n" % D
    # derives requested through strum_discriminants(derive(..)) must exist on the generated type
    if "iter" in ds.checks:
        api += "    let _ = <%s as strum::IntoEnumIterator>::iter();\n" % D
    if "fromstr" in ds.checks or "passthrough" in ds.checks:
        api += "    let _ = <%s as core::str::FromStr>::from_str(\"\");\n" % D
    if "ord" in ds.checks:
        api += "    let _ = %s::%s < %s::%s;\n" % (D, spec.variants[0].ident, D, spec.variants[0].ident)
    if "many" in ds.checks:
        api += "    let _: usize = <%s as strum::EnumCount>::COUNT;\n    let _: &str = AsRef::<str>::as_ref(&%s::A);\n" % (D, D)
        api += "    let _ = <%s as strum::VariantNames>::VARIANTS;\n    fn h<T: core::hash::Hash>() {}\n    h::<%s>();\n" % (D, D)
    if ds.vis and ds.vis != "pub":
        api += "    // restricted visibility: IntoDiscriminant must NOT be required\n"
    api += "}\n"
    return Program(name=pname, enum_src=src, helper_src=helper, api_src=api, harnesses=hs, summary=render_enum(spec), role=spec.role, note=spec.note)


def build(tier, seed):
    rng = mk_rng(seed, "C09")
    specs = pivot() + random_specs(rng, 6 if tier == "quick" else 24)
    programs = [program(s, "p%03d" % i, tier) for i, s in enumerate(specs)]
    return {
        "programs": programs,
        "harness_timeout": 300 if tier == "quick" else 1200,
        "bounds": {"selector": "every declared variant", "payloads": "symbolic"},
        "assumptions": ["program dimension enumerated", "the real tag is read through the layout guaranteed for primitive-repr enums (RFC 2195)",
                        "String payloads are not generated; ints/bools/&'static str only"],
        "outside": ["enums outside the corpus"],
    }
