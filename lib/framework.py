"""Harness-crate generation, Kani/CBMC driving, counterexample playback, native
replay, evidence.  Engine E1 of DESIGN.md."""
import json, os, re, shutil, signal, subprocess, sys, time, hashlib, threading
from dataclasses import dataclass, field
from typing import List, Optional, Dict

VERIF = os.path.dirname(os.path.dirname(os.path.abspath(__file__)))
REPO = os.environ.get("VERIF_REPO", "/repo")
SCRATCH_ROOT = os.environ.get("VERIF_SCRATCH", "/var/tmp/strum-verif")
CACHE = os.path.join(SCRATCH_ROOT, "cache")
JOBS = int(os.environ.get("VERIF_JOBS", "16"))

ENV = dict(os.environ)
ENV["CARGO_NET_OFFLINE"] = "true"
ENV.pop("RUSTFLAGS", None)


# ------------------------------------------------------------------ data

@dataclass
class Harness:
    name: str                       # function name inside the program module
    body: str                       # Rust source of the function body
    unwind: Optional[int] = None
    should_panic: bool = False
    stub: Optional[tuple] = None    # (original path, replacement path)
    kind: str = "symbolic"          # symbolic | witness | lemma
    desc: str = ""
    bound: dict = field(default_factory=dict)
    min_covers: int = 0             # number of vcover! sites that must be satisfied (all of them)
    whitebox: bool = False
    functions: List[str] = field(default_factory=list)   # generated functions this harness drives
    solver: Optional[str] = None
    native_only: bool = False       # replay vehicle for E2 counterexamples: compiled natively only, never a Kani proof


@dataclass
class Program:
    name: str                       # module name, e.g. p003
    enum_src: str                   # Rust: enum definitions + derives + helper items
    harnesses: List[Harness]
    summary: str = ""
    role: str = "pivot"             # pivot | random
    api_src: str = ""               # Rust that uses public names/signatures the property fixes
    helper_src: str = ""            # harness-side helper items (oracle tables, vidx, ...): part of the harness region
    prelude: str = ""               # extra `use` lines
    note: str = ""


@dataclass
class HarnessResult:
    program: str
    harness: str
    status: str = "UNKNOWN"         # SUCCESS | FAILED | TIMEOUT | ERROR | UNKNOWN
    failed_checks: List[str] = field(default_factory=list)
    covers_sat: int = 0
    covers_total: int = 0
    time_s: float = 0.0
    solver_s: float = 0.0
    vccs: int = 0
    props_total: int = 0
    raw: str = ""

    @property
    def full(self):
        return "%s::%s" % (self.program, self.harness)


class MachineryError(Exception):
    pass


def lockfile():
    """Cargo.lock of the repository (untracked there, so a git snapshot of /repo has none: fall back to /repo's)"""
    for p in (os.path.join(REPO, "Cargo.lock"), "/repo/Cargo.lock"):
        if os.path.exists(p):
            return p
    raise MachineryError("no Cargo.lock found")


# ------------------------------------------------------------------ crate writing

LIB_HEAD = """#![allow(dead_code, unused_imports, unused_variables, unused_mut, deprecated, non_snake_case, non_camel_case_types, unreachable_patterns, unreachable_code, unused_parens, unused_assignments, unused_must_use, clippy::all)]
#![cfg_attr(kani, feature(register_tool))]
extern crate alloc;
#[macro_use]
pub mod support;
"""


def crate_name(pid):
    return "sv_" + pid.lower()


def write_crate(cdir, pid, programs: List[Program], features=("derive",), whitebox=True):
    os.makedirs(os.path.join(cdir, "src"), exist_ok=True)
    os.makedirs(os.path.join(cdir, "replay", "src"), exist_ok=True)
    feats = ", ".join('"%s"' % f for f in features)
    with open(os.path.join(cdir, "Cargo.toml"), "w") as f:
        f.write("""[package]
name = "%s"
version = "0.0.0"
edition = "2021"

[dependencies]
strum = { path = "%s/strum", features = [%s] }

[features]
whitebox = []

[workspace]

[lints.rust]
unexpected_cfgs = { level = "allow" }

[profile.release]
debug = false
""" % (crate_name(pid), REPO, feats))
    shutil.copy(lockfile(), os.path.join(cdir, "Cargo.lock"))
    shutil.copy(os.path.join(VERIF, "support", "support.rs"), os.path.join(cdir, "src", "support.rs"))
    lib = [LIB_HEAD.replace("#![cfg_attr(kani, feature(register_tool))]\n", "")]
    regions = {}
    for p in programs:
        lib.append("pub mod %s;" % p.name)
        src, reg = render_program(p)
        regions[p.name] = reg
        with open(os.path.join(cdir, "src", p.name + ".rs"), "w") as f:
            f.write(src)
    # dispatch table for native replay
    lib.append("#[cfg(not(kani))]\npub fn dispatch(name: &str) -> Option<fn()> {\n    match name {")
    for p in programs:
        for h in p.harnesses:
            lib.append('        "%s::%s" => Some(%s::%s as fn()),' % (p.name, h.name, p.name, h.name))
    lib.append("        _ => None,\n    }\n}")
    with open(os.path.join(cdir, "src", "lib.rs"), "w") as f:
        f.write("\n".join(lib) + "\n")
    with open(os.path.join(cdir, "replay", "src", "main.rs"), "w") as f:
        f.write(REPLAY_MAIN.replace("CRATE", crate_name(pid)))
    shutil.copy(lockfile(), os.path.join(cdir, "replay", "Cargo.lock"))
    return regions


REPLAY_MAIN = r"""// native replay of a solver counterexample: replay <harness> <hex,hex,...>
fn main() {
    let a: Vec<String> = std::env::args().collect();
    let name = &a[1];
    let mut vals: Vec<Vec<u8>> = Vec::new();
    if a.len() > 2 && !a[2].is_empty() {
        for item in a[2].split(',') {
            let mut v = Vec::new();
            let b = item.as_bytes();
            let mut i = 0;
            while i + 1 < b.len() {
                v.push(u8::from_str_radix(&item[i..i + 2], 16).unwrap());
                i += 2;
            }
            vals.push(v);
        }
    }
    let f = match CRATE::dispatch(name) { Some(f) => f, None => { eprintln!("REPLAY: unknown harness {}", name); std::process::exit(79) } };
    CRATE::support::replay_load(vals);
    f();
    println!("REPLAY: harness returned normally");
}
"""


def render_program(p: Program):
    out = []
    out.append("// program %s role=%s %s" % (p.name, p.role, p.note.replace("\n", " ")))
    out.append("use crate::support::*;")
    out.append("use crate::vcover;")
    out.append("use core::str::FromStr;")
    out.append("use core::convert::TryFrom;")
    out.append("use core::fmt::Write as _;")
    if p.prelude:
        out.append(p.prelude)
    reg = {}
    reg["enum"] = (len("\n".join(out).split("\n")) + 1, None)
    out.append("// ---- ENUM REGION BEGIN")
    out.append(p.enum_src)
    out.append("// ---- ENUM REGION END")
    n = len("\n".join(out).split("\n"))
    reg["enum"] = (reg["enum"][0], n)
    if p.api_src:
        out.append("// ---- API REGION BEGIN (public names / signatures fixed by the property)")
        out.append(p.api_src)
        out.append("// ---- API REGION END")
        m = len("\n".join(out).split("\n"))
        reg["api"] = (n + 1, m)
        n = m
    out.append("// ---- HARNESS REGION")
    if p.helper_src:
        out.append(p.helper_src)
    for h in p.harnesses:
        if h.native_only:
            out.append("// native-only replay vehicle %s : %s" % (h.name, h.desc.replace("\n", " ")))
            out.append("#[cfg(not(kani))]")
            out.append("pub fn %s() {" % h.name)
            out.append(h.body)
            out.append("}")
            continue
        attrs = ["#[cfg_attr(kani, kani::proof)]"]
        if h.unwind is not None:
            attrs.append("#[cfg_attr(kani, kani::unwind(%d))]" % h.unwind)
        if h.should_panic:
            attrs.append("#[cfg_attr(kani, kani::should_panic)]")
        if h.stub:
            attrs.append("#[cfg_attr(kani, kani::stub(%s, %s))]" % h.stub)
        if h.solver:
            attrs.append("#[cfg_attr(kani, kani::solver(%s))]" % h.solver)
        if h.whitebox:
            attrs.insert(0, '#[cfg(feature = "whitebox")]')
        out.append("// harness %s kind=%s : %s" % (h.name, h.kind, h.desc.replace("\n", " ")))
        out.extend(attrs)
        out.append("pub fn %s() {" % h.name)
        out.append(h.body)
        out.append("}")
    m = len("\n".join(out).split("\n"))
    reg["harness"] = (n + 1, m)
    return "\n".join(out) + "\n", reg


# ------------------------------------------------------------------ process helpers

def _rss_watch(stop_evt, root_pid, cap_kb, killed):
    """kill any cbmc descendant whose RSS exceeds cap_kb (memory-bound sandbox, no swap)."""
    while not stop_evt.wait(2.0):
        try:
            for d in os.listdir("/proc"):
                if not d.isdigit():
                    continue
                try:
                    with open("/proc/%s/stat" % d) as f:
                        st = f.read()
                    comm = st[st.index("(") + 1:st.rindex(")")]
                    if comm != "cbmc":
                        continue
                    rest = st[st.rindex(")") + 2:].split()
                    rss_pages = int(rest[21])
                    if rss_pages * 4 > cap_kb:
                        # only ours: same process group/session
                        pgid = int(rest[2])
                        if pgid == root_pid:
                            os.kill(int(d), signal.SIGKILL)
                            killed.append(int(d))
                except Exception:
                    continue
        except Exception:
            pass


def run(cmd, cwd=None, timeout=None, env=None, mem_cap_gb=None, log=None):
    """Run a command in its own process group; returns (rc, output, timed_out)."""
    t0 = time.time()
    p = subprocess.Popen(cmd, cwd=cwd, env=env or ENV, stdout=subprocess.PIPE, stderr=subprocess.STDOUT,
                         text=True, start_new_session=True, errors="replace")
    stop = threading.Event()
    killed = []
    th = None
    if mem_cap_gb:
        th = threading.Thread(target=_rss_watch, args=(stop, p.pid, int(mem_cap_gb * 1024 * 1024), killed), daemon=True)
        th.start()
    timed_out = False
    try:
        out, _ = p.communicate(timeout=timeout)
    except subprocess.TimeoutExpired:
        timed_out = True
        try:
            os.killpg(p.pid, signal.SIGKILL)
        except Exception:
            pass
        out, _ = p.communicate()
    stop.set()
    if log:
        with open(log, "a") as f:
            f.write("$ %s\n%s\n[rc=%s timed_out=%s %.1fs]\n" % (" ".join(cmd), out, p.returncode, timed_out, time.time() - t0))
    return p.returncode, out, timed_out, killed


# ------------------------------------------------------------------ Kani

def kani_target_dir():
    d = os.path.join(CACHE, "kani-target")
    os.makedirs(d, exist_ok=True)
    return d


def native_target_dir():
    d = os.path.join(CACHE, "native-target")
    os.makedirs(d, exist_ok=True)
    return d


def kani_base_cmd(extra_z=()):
    cmd = ["cargo", "kani", "--target-dir", kani_target_dir(), "-Z", "unstable-options"]
    for z in extra_z:
        cmd += ["-Z", z]
    return cmd


def kani_build(cdir, log, features=(), stubbing=False):
    cmd = kani_base_cmd(("stubbing",) if stubbing else ()) + ["--only-codegen"]
    if features:
        cmd += ["--features", ",".join(features)]
    rc, out, to, _ = run(cmd, cwd=cdir, timeout=1200, log=log)
    return rc == 0 and not to, out


RUSTC_ERR = re.compile(r"^error(\[E\d+\])?: (.*)$")
RUSTC_LOC = re.compile(r"^\s*--> (src/[\w/]+\.rs):(\d+):(\d+)")


def parse_rustc_errors(out):
    """list of (message, file, line) for each rustc error"""
    errs = []
    lines = out.split("\n")
    i = 0
    while i < len(lines):
        m = RUSTC_ERR.match(lines[i])
        if m and not m.group(2).startswith("could not compile") and not m.group(2).startswith("aborting") \
                and not m.group(2).startswith("Failed to execute cargo") and not m.group(2).startswith("Failed to compile"):
            msg = m.group(2)
            loc = (None, None)
            j = i + 1
            while j < len(lines) and j < i + 6:
                l = RUSTC_LOC.match(lines[j])
                if l:
                    loc = (l.group(1), int(l.group(2)))
                    break
                j += 1
            # capture a few lines of context
            ctx = "\n".join(lines[i:min(len(lines), i + 14)])
            errs.append({"msg": msg, "file": loc[0], "line": loc[1], "context": ctx})
        i += 1
    return errs


def classify_build_errors(errs, regions):
    """map each error to (program, region) using the recorded line ranges"""
    out = []
    for e in errs:
        prog, region = None, None
        if e["file"]:
            base = os.path.basename(e["file"])[:-3]
            if base in regions:
                prog = base
                for r, (a, b) in regions[base].items():
                    if a <= e["line"] <= b:
                        region = r
            else:
                region = "support"
        out.append(dict(e, program=prog, region=region))
    return out


THREAD_CHECK = re.compile(r"^(?:Thread \d+: )?Checking harness (\S+?)\.\.\.\s*$")


def kani_run(cdir, log, harness_timeout, features=(), stubbing=False, only=None, jobs=None, mem_cap_gb=10,
             overall_timeout=None):
    """Run all (or `only`) harnesses; returns dict full_name -> HarnessResult."""
    jpath = os.path.join(cdir, "kani-out.json")
    if os.path.exists(jpath):
        os.remove(jpath)
    cmd = kani_base_cmd(("stubbing",) if stubbing else ())
    cmd += ["-j", str(jobs or JOBS), "--output-format", "terse", "--harness-timeout", "%ds" % harness_timeout,
            "--export-json", jpath]
    if features:
        cmd += ["--features", ",".join(features)]
    if only:
        cmd += ["--exact"]
        for h in only:
            cmd += ["--harness", h]
    t0 = time.time()
    rc, out, to, killed = run(cmd, cwd=cdir, timeout=overall_timeout, log=log, mem_cap_gb=mem_cap_gb)
    res = parse_kani_output(out)
    if os.path.exists(jpath):
        try:
            merge_kani_json(res, json.load(open(jpath)))
        except Exception as e:
            pass
    return res, out, to, killed


def parse_kani_output(out):
    res: Dict[str, HarnessResult] = {}
    cur_by_thread = {}
    blocks = []
    lines = out.split("\n")
    # split into blocks per thread
    cur_thread = None
    cur = None
    for ln in lines:
        m = re.match(r"^Thread (\d+): (.*)$", ln)
        if m:
            th, rest = m.group(1), m.group(2)
            mc = re.match(r"^Checking harness (\S+?)\.\.\.\s*$", rest)
            if mc:
                cur_by_thread[th] = mc.group(1)
                cur = None
                continue
            # start of a result block for thread th
            name = cur_by_thread.get(th)
            cur = {"name": name, "lines": [rest]}
            blocks.append(cur)
            continue
        mc = re.match(r"^Checking harness (\S+?)\.\.\.\s*$", ln)
        if mc:   # sequential mode
            cur = {"name": mc.group(1), "lines": []}
            blocks.append(cur)
            continue
        if ln.startswith("Manual Harness Summary") or ln.startswith("Complete - "):
            cur = None
            continue
        if cur is not None:
            cur["lines"].append(ln)
    for b in blocks:
        if not b["name"]:
            continue
        prog, _, h = b["name"].rpartition("::")
        r = HarnessResult(program=prog, harness=h)
        txt = "\n".join(b["lines"])
        r.raw = txt[-3000:]
        if "VERIFICATION:- SUCCESSFUL" in txt:
            r.status = "SUCCESS"
        elif "VERIFICATION:- FAILED" in txt:
            r.status = "FAILED"
        if re.search(r"timed out|Timeout|TIMEOUT", txt) and r.status != "SUCCESS":
            r.status = "TIMEOUT"
        if "Status: ERROR" in txt or "CBMC failed" in txt or "exited with status" in txt or "killed" in txt.lower():
            if r.status not in ("SUCCESS", "TIMEOUT"):
                r.status = "ERROR" if r.status != "FAILED" or "Failed Checks" not in txt else r.status
        for m in re.finditer(r"Failed Checks: (.*)\n\s*File: \"([^\"]*)\", line (\d+), in (\S+)", txt):
            r.failed_checks.append("%s [%s:%s in %s]" % (m.group(1).strip(), m.group(2), m.group(3), m.group(4)))
        for m in re.finditer(r"Failed Checks: (.*)$", txt, re.M):
            d = m.group(1).strip()
            if not any(fc.startswith(d + " [") for fc in r.failed_checks):
                r.failed_checks.append(d)
        m = re.search(r"\*\* (\d+) of (\d+) cover properties satisfied", txt)
        if m:
            r.covers_sat, r.covers_total = int(m.group(1)), int(m.group(2))
        m = re.search(r"Verification Time: ([\d.]+)s", txt)
        if m:
            r.time_s = float(m.group(1))
        res[b["name"]] = r
    return res


def merge_kani_json(res, j):
    for c in j.get("cbmc", []):
        r = res.get(c.get("harness_id"))
        if r is None:
            continue
        st = c.get("cbmc_stats", {}) or {}
        r.solver_s = float(st.get("runtime_decision_procedure_s", 0) or 0)
        r.vccs = int(st.get("vccs_generated", 0) or 0)
    for p in j.get("property_details", []):
        r = res.get(p.get("harness_id"))
        if r is None:
            continue
        d = p.get("property_details", {})
        r.props_total = int(d.get("total_properties", 0))


PLAYBACK_BLOCK = re.compile(
    r"/// Test generated for harness `([^`]+)`\s*\n///\s*\n/// Check for `([^`]*)`: \"(.*?)\"\s*\n(?:///.*\n)*#\[test\]\s*\nfn (\w+)\(\) \{\s*\n\s*let concrete_vals: Vec<Vec<u8>> = vec!\[(.*?)\];",
    re.S)


def kani_playback(cdir, log, full_name, harness_timeout, features=(), stubbing=False):
    """Re-run one failing harness with concrete playback; returns list of
    {check_kind, check, vals:[bytes...]}"""
    z = ["concrete-playback"] + (["stubbing"] if stubbing else [])
    cmd = kani_base_cmd(z) + ["--output-format", "terse", "--concrete-playback=print", "--exact", "--harness", full_name,
                              "--harness-timeout", "%ds" % harness_timeout]
    if features:
        cmd += ["--features", ",".join(features)]
    rc, out, to, _ = run(cmd, cwd=cdir, timeout=harness_timeout + 600, log=log, mem_cap_gb=12)
    tests = []
    for m in PLAYBACK_BLOCK.finditer(out):
        vals = []
        for v in re.finditer(r"vec!\[([^\]]*)\]", m.group(5)):
            inner = v.group(1).strip()
            vals.append(bytes(int(x) for x in inner.split(",") if x.strip()) if inner else b"")
        tests.append({"check_kind": m.group(2), "check": m.group(3).strip('"'), "vals": vals})
    return tests, out


# ------------------------------------------------------------------ native replay

_native_built = {}


def native_build(cdir, pid, log, features=()):
    key = (cdir, tuple(features))
    if key in _native_built:
        return _native_built[key]
    env = dict(ENV)
    env["CARGO_TARGET_DIR"] = native_target_dir()
    env["RUSTUP_TOOLCHAIN"] = "stable"
    with open(os.path.join(cdir, "replay", "Cargo.toml"), "w") as f:
        f.write("""[package]
name = "replay_%s"
version = "0.0.0"
edition = "2021"

[dependencies]
%s = { path = "..", features = [%s] }

[workspace]

# release semantics (no overflow checks, no debug assertions) at a low optimisation level: large corpus enums make
# a fully optimised build of the harness crate take tens of minutes
[profile.release]
debug = false
opt-level = 1
codegen-units = 16
""" % (pid.lower(), crate_name(pid), ", ".join('"%s"' % x for x in features)))
    ok = {}
    for name, prof in (("dev", []), ("release", ["--release"])):
        rc, out, to, _ = run(["cargo", "build", "--offline"] + prof,
                             cwd=os.path.join(cdir, "replay"), timeout=900, env=env, log=log)
        ok[name] = (rc == 0 and not to)
    _native_built[key] = ok
    return ok


def native_replay(cdir, pid, full_name, vals, log, features=()):
    """Run the harness natively (dev and release) on concrete values.
    Returns dict profile -> {'outcome': 'returned'|'panicked'|'assume_violated'|'error', 'message': str}"""
    built = native_build(cdir, pid, log, features)
    hexvals = ",".join(v.hex() for v in vals)
    out = {}
    for prof, sub in (("dev", "debug"), ("release", "release")):
        if not built.get(prof):
            out[prof] = {"outcome": "error", "message": "native %s build failed or timed out" % prof, "rc": None}
            continue
        exe = os.path.join(native_target_dir(), sub, "replay_" + pid.lower())
        try:
            p = subprocess.run([exe, full_name, hexvals], capture_output=True, text=True, timeout=60, errors="replace")
            msg = (p.stderr or "")[-1500:]
            if p.returncode == 0:
                oc = "returned"
            elif p.returncode == 101:
                oc = "panicked"
            elif p.returncode == 77:
                oc = "assume_violated"
            elif p.returncode < 0 or p.returncode in (134, 139):
                oc = "crashed"          # killed by a signal: stack overflow / abort (e.g. unbounded recursion)
            else:
                oc = "error"
            out[prof] = {"outcome": oc, "message": msg.strip(), "rc": p.returncode}
        except subprocess.TimeoutExpired:
            out[prof] = {"outcome": "error", "message": "native replay timed out", "rc": None}
    return out


def reproduces(replay, should_panic=False):
    oks = [r["outcome"] for r in replay.values()]
    if should_panic:
        return any(o == "returned" for o in oks)
    return any(o in ("panicked", "crashed") for o in oks)
