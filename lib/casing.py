"""Reference implementation of the documented identifier re-casing rules.

Written from the property statement (C07) and the documented word-splitting
rule, not from strum's code: words are split at every non-alphanumeric
character, at a lower->upper transition, and before the last capital of an
acronym that is followed by a lower-case letter.  Digits are caseless: they
neither open nor close a word by themselves and the case of the last cased
character before them still counts.
"""

STYLE_ALIASES = {
    "camelCase": "camelCase",
    "PascalCase": "PascalCase",
    "camel_case": "PascalCase",  # legacy alias
    "kebab-case": "kebab-case",
    "kebab_case": "kebab-case",
    "snake_case": "snake_case",
    "snek_case": "snake_case",
    "SCREAMING_SNAKE_CASE": "SCREAMING_SNAKE_CASE",
    "shouty_snake_case": "SCREAMING_SNAKE_CASE",
    "shouty_snek_case": "SCREAMING_SNAKE_CASE",
    "SCREAMING-KEBAB-CASE": "SCREAMING-KEBAB-CASE",
    "lowercase": "lowercase",
    "UPPERCASE": "UPPERCASE",
    "title_case": "title_case",
    "mixed_case": "mixed_case",
    "Train-Case": "Train-Case",
}

ALL_STYLE_STRINGS = list(STYLE_ALIASES.keys())
DOCUMENTED_STYLES = [
    "camelCase", "PascalCase", "kebab-case", "snake_case", "SCREAMING_SNAKE_CASE",
    "SCREAMING-KEBAB-CASE", "lowercase", "UPPERCASE", "title_case", "mixed_case", "Train-Case",
]


def split_words(ident: str):
    words = []
    for chunk in _split_non_alnum(ident):
        if not chunk:
            continue
        start = 0
        mode = None  # None | 'l' | 'u'  (case of the last cased character seen in this word)
        n = len(chunk)
        i = 0
        while i < n:
            c = chunk[i]
            if i + 1 < n:
                nxt = chunk[i + 1]
                if c.islower():
                    nmode = 'l'
                elif c.isupper():
                    nmode = 'u'
                else:
                    nmode = mode
                if nmode == 'l' and nxt.isupper():
                    words.append(chunk[start:i + 1])
                    start = i + 1
                    mode = None
                elif mode == 'u' and c.isupper() and nxt.islower():
                    if start < i:
                        words.append(chunk[start:i])
                    start = i
                    mode = 'u'
                else:
                    mode = nmode
            else:
                words.append(chunk[start:])
            i += 1
    return [w for w in words if w]


def _split_non_alnum(s):
    out, cur = [], ""
    for ch in s:
        if ch.isalnum():
            cur += ch
        else:
            out.append(cur)
            cur = ""
    out.append(cur)
    return out


def _cap(w):
    return w[:1].upper() + w[1:].lower()


def convert(ident: str, style):
    """style: one of ALL_STYLE_STRINGS or None (no serialize_all)."""
    if style is None:
        return ident
    st = STYLE_ALIASES[style]
    if st == "lowercase":
        return ident.lower()
    if st == "UPPERCASE":
        return ident.upper()
    ws = split_words(ident)
    if st == "snake_case":
        return "_".join(w.lower() for w in ws)
    if st == "kebab-case":
        return "-".join(w.lower() for w in ws)
    if st == "SCREAMING_SNAKE_CASE":
        return "_".join(w.upper() for w in ws)
    if st == "SCREAMING-KEBAB-CASE":
        return "-".join(w.upper() for w in ws)
    if st == "title_case":
        return " ".join(_cap(w) for w in ws)
    if st == "Train-Case":
        return "-".join(_cap(w) for w in ws)
    if st == "PascalCase":
        return "".join(_cap(w) for w in ws)
    if st == "mixed_case":
        return "".join(w.lower() if i == 0 else _cap(w) for i, w in enumerate(ws))
    if st == "camelCase":
        p = "".join(_cap(w) for w in ws)
        return p[:1].lower() + p[1:]
    raise ValueError(style)


def snake_method(ident: str):
    """Name stem of is_*/try_as_* methods and table fields: snake_case with every
    digit run split off as its own word (`Http2Server` -> `http_2_server`)."""
    s = convert(ident, "snake_case")
    out = []
    for i, ch in enumerate(s):
        if ch.isdigit() and i != 0 and not s[i - 1].isdigit() and s[i - 1] != "_":
            out.append("_")
        out.append(ch)
    return "".join(out)
