"""E2 string skeleton driver shared by C01, C12, C18 (see mir2smt_str.py)."""
import copy, os, shutil, struct, time
import framework as fw
import mir2smt as m
import mir2smt_str as ms
from spec import render_enum, spellings, is_ci


def run_e2(run, programs, specs, extra_src, user_fns, err_fn_of, known, replay_harness="h_e2_replay", derive="EnumString", vcs_of=None, vec_of=None,
           claim=None, validation=None):
    import driver
    t0 = time.time()
    cdir = os.path.join(run.cdir, "e2s")
    os.makedirs(os.path.join(cdir, "src"), exist_ok=True)
    with open(os.path.join(cdir, "Cargo.toml"), "w") as f:
        f.write('[package]\nname = "sv_%s_e2s"\nversion = "0.0.0"\nedition = "2021"\n[dependencies]\nstrum = { path = "%s/strum", features = ["derive"] }\n[workspace]\n' % (run.pid.lower(), fw.REPO))
    shutil.copy(fw.lockfile(), os.path.join(cdir, "Cargo.lock"))
    src = ["#![allow(dead_code, non_camel_case_types, unused)]", extra_src]
    for sp in specs:
        sp2 = copy.deepcopy(sp)
        sp2.std_derives = ["Debug"]
        sp2.derives = [derive]
        src.append(render_enum(sp2))
    if validation:
        src.append(validation[0])
        for sp, _, _ in validation[1]:
            sp2 = copy.deepcopy(sp)
            sp2.std_derives = ["Debug"]
            sp2.derives = [derive]
            src.append(render_enum(sp2))
    with open(os.path.join(cdir, "src", "lib.rs"), "w") as f:
        f.write("\n".join(src) + "\n")
    env = dict(fw.ENV)
    env["CARGO_TARGET_DIR"] = os.path.join(fw.CACHE, "e2-target")
    rc, out, to, _ = fw.run(["cargo", "+nightly", "rustc", "--offline", "--lib", "--", "-Zunpretty=mir", "-C", "debug-assertions=off", "-C", "overflow-checks=off"],
                            cwd=cdir, timeout=900, env=env, log=None)
    k = out.find("// WARNING: This output format")
    res = {"queries": 0, "nontrivial": 0, "solver_s": 0.0, "functions": [], "samples": [], "unsupported": [],
           "claim": claim or "for EVERY input string of any length: the variant reached through from_str's MIR is the reference parser's (payload-is-input / error-is-f(input) tracked symbolically)"}
    if rc != 0 or k < 0:
        with open(run.log, "a") as lf:
            lf.write(out[-4000:])
        res["unsupported"].append("no MIR dump (rc=%s): the E2 crate does not build; not decided by E2" % rc)
        run.say("NOTE: E2 (string skeleton) could not obtain a MIR dump; the property rests on E1")
        return res
    fns = m.parse_mir(out[k:])
    for sp in specs:
        prog = next((p for p in programs if (" enum %s " % sp.name) in p.enum_src or (" enum %s<" % sp.name) in p.enum_src), None)
        try:
            if vcs_of is not None:
                vcs, fl = vcs_of(fns, sp)
            else:
                vcs, fl = ms.from_str_vcs(fns, sp, lambda v, sp=sp: spellings(sp, v), lambda v, sp=sp: is_ci(sp, v), user_fns, err_fn=err_fn_of(sp))
        except m.Unsupported as e:
            res["unsupported"].append("%s: %s" % (sp.name, e))
            continue
        res["functions"].extend(fl)
        for vc in vcs:
            v, secs, detail = ms.solve_str(vc["script"])
            tw, secs2, _ = ms.solve_str(vc["twin"])
            res["queries"] += 2
            res["solver_s"] += secs + secs2
            if v == "unsat" and tw == "sat":
                res["nontrivial"] += 1
                if len(res["samples"]) < 3:
                    res["samples"].append({"engine": "E2-str", "enum": sp.name, "vc": vc["name"], "what": vc["what"], "verdict": "unsat", "sat_twin": "sat", "solvers": detail})
            elif v == "unsat":
                if "leaf" in vc["name"]:
                    pass      # an unreachable leaf (e.g. the arm of an empty enum) proves nothing and claims nothing
                else:
                    run.machinery.append("E2-str vacuity: sat-twin of %s/%s is %s" % (sp.name, vc["name"], tw))
            elif v == "sat":
                s = ms.model_string(vc["script"])
                _counterexample(run, prog, sp, vc, s, known, replay_harness, vec_of)
            else:
                run.machinery.append("E2-str inconclusive: %s/%s (%s)" % (sp.name, vc["name"], detail))
    if validation:
        # translator validation on the repository's own (input, variant) test pairs (strum_tests/tests/from_str.rs)
        vsrc, vspecs = validation
        res["translator_validation"] = []
        for sp, pairs, ufns in vspecs:
            try:
                for inp, exp, v in ms.validate_pairs(fns, sp, ufns, pairs):
                    res["queries"] += 1
                    res["translator_validation"].append({"enum": sp.name, "input": inp, "expected": str(exp), "verdict": v})
                    if v != "unsat":
                        run.machinery.append("E2-str translator validation failed: the encoding of %s does not map %r to %s as the repository's test asserts (%s)" % (sp.name, inp, exp, v))
            except m.Unsupported as e:
                res["unsupported"].append("validation %s: %s" % (sp.name, e))
    res["wall_s"] = round(time.time() - t0, 1)
    if res["unsupported"]:
        run.say("NOTE: E2 (string skeleton) could not encode: %s  (not decided by E2; E1 decides these within its bound)" % "; ".join(res["unsupported"][:4]))
    return res


def _counterexample(run, prog, sp, vc, s, known, replay_harness, vec_of=None):
    import driver
    what = "E2-str VC %s/%s violated (%s) at input %r" % (sp.name, vc["name"], vc["what"], s)
    if prog is None or s is None:
        run.machinery.append(what + " (no model string / no E1 program to replay through)")
        return
    b = s.encode()
    if len(b) > 64:
        run.machinery.append(what + " (model longer than the 64-byte replay buffer)")
        return
    h = next((h for h in prog.harnesses if h.name == replay_harness), None)
    if h is None:
        run.machinery.append(what + " (no replay harness)")
        return
    vec = [bytes([x]) for x in b.ljust(64, b"\0")] + [struct.pack("<Q", len(b))]
    if vec_of is not None:
        vec = vec + vec_of(sp, vc)
    replay = fw.native_replay(run.cdir, run.pid, "%s::%s" % (prog.name, h.name), vec, run.log)
    test = {"check": what, "vals": vec}
    if fw.reproduces(replay):
        driver.report(run, prog, h, test, replay, known)
    else:
        run.machinery.append(what + " but it does not reproduce natively: %s" % {k: v["outcome"] for k, v in replay.items()})
