"""Shared Rust-generation helpers for the per-property harness generators."""
import random
from spec import *

INT_TYPES = ["u8", "i8", "u16", "i16", "u32", "i32", "u64", "i64", "usize", "isize"]
RANGE = {
    "u8": (0, 2**8 - 1), "i8": (-2**7, 2**7 - 1), "u16": (0, 2**16 - 1), "i16": (-2**15, 2**15 - 1),
    "u32": (0, 2**32 - 1), "i32": (-2**31, 2**31 - 1), "u64": (0, 2**64 - 1), "i64": (-2**63, 2**63 - 1),
    "usize": (0, 2**64 - 1), "isize": (-2**63, 2**63 - 1),
}


def nd(ty):
    """expression producing a symbolic value of a primitive type"""
    if ty in INT_TYPES or ty == "bool":
        return "nd_%s()" % ty
    raise ValueError(ty)


def int_lit(val, ty):
    lo, hi = RANGE[ty]
    assert lo <= val <= hi, (val, ty)
    if val < 0:
        return "(%d as %s)" % (val, ty) if val != lo else "%s::MIN" % ty
    return "%d%s" % (val, ty)


def concrete_ty(spec, ty):
    import re
    for k, v in (spec.subst or {}).items():
        if k.startswith("'"):
            ty = re.sub(r"%s\b" % k, v, ty)
        else:
            ty = re.sub(r"\b%s\b" % k, v, ty)
    return ty


def field_default_expr(f: Field, spec=None):
    if f.default_expr:
        return f.default_expr
    return "<%s as Default>::default()" % (concrete_ty(spec, f.ty) if spec else f.ty)


def payload_ok_fn(spec: EnumSpec, fname="payload_ok", variant_default_with=None):
    """fn payload_ok(&E) -> bool: every field equals Default::default() / the declared default_with value.
    variant_default_with: dict ident -> expr for single-field tuple variants with variant-level default_with."""
    arms = []
    for v in spec.variants:
        if not v.fields:
            arms.append("        %s => true," % pattern(spec, v))
            continue
        bs = ["f%d" % i for i in range(len(v.fields))]
        conds = []
        for b, f in zip(bs, v.fields):
            exp = field_default_expr(f, spec)
            if variant_default_with and v.ident in variant_default_with:
                exp = variant_default_with[v.ident]
            conds.append("*%s == %s" % (b, exp))
        arms.append("        %s => %s," % (pattern(spec, v, bs), " && ".join(conds)))
    if not spec.variants:
        return "pub fn %s(e: &%s) -> bool { match *e {} }" % (fname, spec.ty())
    return "pub fn %s(e: &%s) -> bool {\n    match e {\n%s\n    }\n}" % (fname, spec.ty(), "\n".join(arms))


def mk_rng(seed, pid):
    return random.Random("%s-%s" % (pid, seed))


WORDS = ["Red", "Green", "Blue", "Alpha", "Beta", "Gamma", "Delta", "Zed", "Io", "HTTPServer", "Http2", "IoError2",
         "DarkBlack", "X", "Ab", "AbCd", "ABCd", "Foo1Bar", "V2", "Up", "Down", "Left", "Right", "Quit", "Move",
         "Write", "Lime", "Plum", "Kiwi", "Fig", "Pear", "I2c", "Ipv4addr", "V1beta2", "Sha256sum", "A_b", "XMLHttp", "B2B"]


def rand_idents(rng, n):
    """n identifiers whose snake_case method / field names are pairwise distinct (two variants mapping to the same
    generated name are rejected by rustc and outside every derive's domain)"""
    out, seen = [], set()
    pool = list(WORDS)
    rng.shuffle(pool)
    for w in pool:
        if len(out) == n:
            break
        k = casing.snake_method(w)
        if k in seen or w.lower() in seen:
            continue
        seen.add(k)
        seen.add(w.lower())
        out.append(w)
    i = 0
    while len(out) < n:
        out.append("V%d" % i)
        i += 1
    return out


def payload_expr(spec, f: Field, symbolic=True):
    ct = concrete_ty(spec, f.ty)
    if symbolic and (ct in INT_TYPES or ct == "bool"):
        return nd(ct)
    if ct in ("&'static str", "&str"):
        return '"pl"'
    if ct == "String":
        return 'String::new()'
    return "<%s as Default>::default()" % ct


def make_fn(spec: EnumSpec, indices=None, fname="make", symbolic=True):
    """fn make(k: u8) -> E: the k-th variant of `indices` (declaration indices; default: all) with symbolic
    integer/bool payloads and defaults for the rest."""
    if indices is None:
        indices = list(range(len(spec.variants)))
    arms = []
    for j, i in enumerate(indices):
        v = spec.variants[i]
        arms.append("        %d => %s," % (j, construct(spec, v, [payload_expr(spec, f, symbolic) for f in v.fields])))
    if not arms:
        return "pub fn %s(k: u8) -> %s { unreachable!() }" % (fname, spec.ty())
    return "pub fn %s(k: u8) -> %s {\n    match k {\n%s\n        _ => unreachable!(),\n    }\n}" % (fname, spec.ty(), "\n".join(arms))


def bytes_table_fn(fname, items):
    """fn fname(k: usize) -> &'static [u8] over a list of python strings"""
    arms = " ".join("%d => %s," % (i, rust_bytes(x.encode())) for i, x in enumerate(items))
    return "pub fn %s(k: usize) -> &'static [u8] { match k { %s _ => b\"<none>\" } }" % (fname, arms)


def opt_bytes_table_fn(fname, items):
    arms = " ".join("%d => %s," % (i, ("Some(&%s[..])" % rust_bytes(x.encode())) if x is not None else "None") for i, x in enumerate(items))
    return "pub fn %s(k: usize) -> Option<&'static [u8]> { match k { %s _ => None } }" % (fname, arms)


def eligible_print(spec: EnumSpec):
    """declaration indices of variants whose printed name is the fixed canonical name (C02/C03 domain)"""
    out = []
    for i, v in enumerate(spec.variants):
        if v.disabled or v.default or v.transparent:
            continue
        if has_placeholder(canonical(spec, v, with_prefix=False)):
            continue
        out.append(i)
    return out


WEIRD = ["\t", " ", "\"", "\\", "é", "ß", "{{", "}}", "-", "_", ".", "'", "İ", "0"]


def rand_lit(rng, tag, minlen=1, maxlen=5, weird=0.5):
    """a literal made unique by `tag`, optionally salted with characters that need escaping in Rust source, non-ASCII
    letters, doubled braces and whitespace (shapes the hand-written tests never use)"""
    n = rng.randint(minlen, maxlen)
    body = "".join(rng.choice("abcXYZ") for _ in range(n))
    if rng.random() < weird:
        k = rng.randint(0, len(body))
        body = body[:k] + rng.choice(WEIRD) + body[k:]
    return "%s%s" % (body, tag)


def decorate(rng, spec: EnumSpec, allow_docs=True, allow_props=True, allow_messages=True):
    """Randomly vary HOW a definition is written without changing what it means for the property under test: attribute
    layout (joined / split / trailing comma, flags before or after key = value items), neighbouring attributes every
    strum derive parses (message, detailed_message, props, doc lines, interleaved doc lines).  refsem reads the same
    spec, so expectations stay consistent for the derives that do observe these (EnumMessage, EnumProperty)."""
    for i, v in enumerate(spec.variants):
        r = rng.random()
        v.attr_style = "joined" if r < 0.5 else ("split" if r < 0.8 else "trailing")
        v.flags_last = rng.random() < 0.5
        if allow_messages and v.message is None and rng.random() < 0.3:
            v.message = "msg %d" % i
        if allow_messages and v.detailed_message is None and rng.random() < 0.15:
            v.detailed_message = "detail %d" % i
        if allow_props and not v.props and rng.random() < 0.25:
            kw = rng.choice(["pk", "pk", "disabled", "default", "serialize", "message"])   # props keys are arbitrary identifiers
            v.props = [[(kw, "pv%d" % i)], [("pn", i)]][: rng.randint(1, 2)]
        if allow_docs and not v.docs and rng.random() < 0.3:
            v.docs = [" doc %d" % i, " more"][: rng.randint(1, 2)]
        if len(v.docs) >= 2 and rng.random() < 0.5:
            v.docs_interleave = True
    return spec
