"""check driver: corpus -> harness crate -> Kani (E1) [-> mir2smt (E2)] -> playback -> native replay
-> evidence + VIOLATION / KNOWN-FINDING lines.  Exit 0 / 1 / 2 as in DESIGN.md 2.5."""
import importlib, json, os, re, shutil, sys, time, hashlib, traceback, atexit
import framework as fw
from framework import Harness, Program, HarnessResult

VERIF = fw.VERIF


def load_known():
    p = os.path.join(VERIF, "known_findings.json")
    if not os.path.exists(p):
        return []
    return json.load(open(p)).get("findings", [])


def match_known(known, pid, harness_name, check_text, program_text=""):
    """An open finding is keyed by the failing call site: harness, failed check AND the enum definition it fails on
    (`program`: regex over the rendered definition), so another violation of the same property is still reported."""
    for k in known:
        if k.get("property") != pid or k.get("status") != "open":
            continue
        m = k.get("match", {})
        if re.search(m.get("harness", ".*"), harness_name) and re.search(m.get("check", ".*"), check_text) \
                and re.search(m.get("program", ".*"), program_text or "", re.S):
            return k
    return None


class Run:
    def __init__(self, pid, tier, seed, keep=False):
        self.pid, self.tier, self.seed, self.keep = pid, tier, seed, keep
        self.t0 = time.time()
        self.cdir = os.path.join(fw.SCRATCH_ROOT, "run", "%s-%d" % (pid.lower(), os.getpid()))
        if os.path.exists(self.cdir):
            shutil.rmtree(self.cdir)
        os.makedirs(self.cdir)
        self.logdir = os.path.join(VERIF, "logs")
        os.makedirs(self.logdir, exist_ok=True)
        self.log = os.path.join(self.logdir, "%s-%s.log" % (pid, tier))
        open(self.log, "w").close()
        self.violations = []        # dicts
        self.known_hits = []
        self.machinery = []         # strings
        self.results = {}
        self.build_violations = []
        atexit.register(self.cleanup)

    def cleanup(self):
        if not self.keep and os.path.exists(self.cdir):
            shutil.rmtree(self.cdir, ignore_errors=True)

    def say(self, *a):
        print(*a, flush=True)


def write_replay_file(run, prog: Program, h, test, replay, extra=None):
    d = os.path.join(VERIF, "replays", run.pid)
    os.makedirs(d, exist_ok=True)
    hname = h.name if h is not None else "build"
    body = {
        "property": run.pid, "tier": run.tier, "seed": run.seed,
        "program": prog.name if prog else None,
        "harness": hname,
        "harness_desc": h.desc if h is not None else "",
        "failed_check": test.get("check") if test else None,
        "concrete_values_hex": [v.hex() for v in test["vals"]] if test and "vals" in test else [],
        "native_replay": replay,
        "program_source": (prog.enum_src if prog else None),
        "harness_source": (h.body if h is not None else None),
        "rerun": "./check replay <this file>",
    }
    if extra:
        body.update(extra)
    key = hashlib.sha1(json.dumps(body, sort_keys=True, default=str).encode()).hexdigest()[:10]
    path = os.path.join(d, "%s-%s-%s.json" % (prog.name if prog else "crate", hname, key))
    with open(path, "w") as f:
        json.dump(body, f, indent=1, default=str)
    return path


_LOCK = None


def _serialize(pid):
    """two runs of the SAME property share cargo artifacts of the same crate name in the dependency cache; serialize them"""
    global _LOCK
    import fcntl
    os.makedirs(fw.CACHE, exist_ok=True)
    _LOCK = open(os.path.join(fw.CACHE, "lock-%s" % pid.lower()), "w")
    fcntl.flock(_LOCK, fcntl.LOCK_EX)


def run_check(pid, tier, seed, keep=False):
    _serialize(pid)
    run = Run(pid, tier, seed, keep)
    known = load_known()
    mod = importlib.import_module("props." + pid.lower())
    built = mod.build(tier, seed)
    programs = built["programs"]
    if os.environ.get("VERIF_ONLY"):      # debugging aid: restrict to some program modules
        keep_names = set(os.environ["VERIF_ONLY"].split(","))
        programs = [p for p in programs if p.name in keep_names]
    features = tuple(built.get("features", ("derive",)))
    stubbing = bool(built.get("stubbing", False))
    htimeout = int(built.get("harness_timeout", 600 if tier == "quick" else 2400))
    crate_features = list(built.get("crate_features", []))
    whitebox = any(h.whitebox for p in programs for h in p.harnesses)
    wb_note = None

    # ---------------- build (with classification of failures)
    attempt = 0
    while True:
        attempt += 1
        regions = fw.write_crate(run.cdir, pid, programs, features)
        feats = list(crate_features) + (["whitebox"] if whitebox else [])
        ok, out = fw.kani_build(run.cdir, run.log, features=feats, stubbing=stubbing)
        if ok:
            break
        errs = fw.classify_build_errors(fw.parse_rustc_errors(out), regions)
        if not errs:
            run.machinery.append("harness crate does not build and no rustc error could be parsed; see %s" % run.log)
            return finish(run, built, programs, [])
        # white-box harness code not compiling: fall back to black-box
        bad_progs = {}
        for e in errs:
            bad_progs.setdefault(e["program"], []).append(e)
        dropped = False
        if whitebox and all(is_whitebox_error(e, programs, regions) for e in errs):
            whitebox = False
            wb_note = "white-box harnesses do not build against the current tree (representation changed); black-box only"
            run.say("NOTE: " + wb_note)
            continue
        for pname, es in bad_progs.items():
            prog = next((p for p in programs if p.name == pname), None)
            if prog is None:
                run.machinery.append("build error outside any program: %s" % es[0]["msg"])
                return finish(run, built, programs, [])
            regs = set(e["region"] for e in es)
            if regs <= {"enum", "api"} or "api" in regs:
                if prog.role == "pivot" or "api" in regs:
                    path = write_replay_file(run, prog, None, None, None, extra={
                        "build_violation": True, "rustc_diagnostics": [e["context"] for e in es][:5]})
                    es = sorted(es, key=lambda e: 0 if e["region"] == "api" else 1 if e["region"] == "enum" else 2)
                    k = match_known(known, pid, "build:" + prog.name, es[0]["msg"] + " " + prog.note, prog.summary or "")
                    rec = {"program": prog.name, "harness": "build", "check": es[0]["msg"], "replay": path,
                           "build_violation": True, "note": prog.note}
                    if k:
                        run.known_hits.append((k, rec))
                    else:
                        run.violations.append(rec)
                    run.build_violations.append(rec)
                else:
                    run.machinery.append("random corpus program %s rejected by rustc: %s" % (prog.name, es[0]["msg"]))
                programs = [p for p in programs if p.name != pname]
                dropped = True
            else:
                run.machinery.append("harness code of %s does not build: %s (%s:%s)" % (
                    pname, es[0]["msg"], es[0]["file"], es[0]["line"]))
                programs = [p for p in programs if p.name != pname]
                dropped = True
        if not dropped or attempt > 6 or not programs:
            break
    built["wb_note"] = wb_note
    if not programs:
        return finish(run, built, programs, [])

    # ---------------- E1: Kani
    feats = list(crate_features) + (["whitebox"] if whitebox else [])
    res, out, to, killed = fw.kani_run(run.cdir, run.log, htimeout, features=feats, stubbing=stubbing,
                                      mem_cap_gb=built.get("mem_cap_gb", 10))
    run.results = res
    all_h = []
    for p in programs:
        for h in p.harnesses:
            if (h.whitebox and not whitebox) or h.native_only:
                continue
            all_h.append((p, h))
    failing = []
    for p, h in all_h:
        full = "%s::%s" % (p.name, h.name)
        r = res.get(full)
        if r is None:
            run.machinery.append("no verdict for harness %s (driver timed out or Kani aborted)" % full)
            continue
        if evaluate_simple(run, p, h, r):
            failing.append((p, h, r))
    # counterexample extraction: re-run failing harnesses with concrete playback, a few at a time in parallel,
    # cheapest first; beyond the cap the remaining failures are listed but not replayed.
    failing.sort(key=lambda x: x[2].time_s)
    cap = int(os.environ.get("VERIF_PLAYBACK_CAP", "4" if tier == "quick" else "12"))
    todo, rest = failing[:cap], failing[cap:]
    import concurrent.futures as cf
    def _pb(item):
        p, h, r = item
        if h.should_panic:
            return item, None
        return item, fw.kani_playback(run.cdir, run.log, r.full, htimeout, features=feats, stubbing=stubbing)
    with cf.ThreadPoolExecutor(max_workers=4) as ex:
        pbs = list(ex.map(_pb, todo))
    for (p, h, r), pb in pbs:
        evaluate_failed(run, p, h, r, known, feats, pb)
    if rest:
        names = ", ".join("%s (%s)" % (r.full, "; ".join(r.failed_checks[:1])) for _, _, r in rest)
        if run.violations or run.known_hits:
            run.say("NOTE: further failing harnesses not replayed (playback cap %d): %s" % (cap, names))
        else:
            run.machinery.append("failing harnesses beyond the playback cap were not replayed: " + names)

    # ---------------- E2 (optional, property specific)
    e2 = None
    if hasattr(mod, "e2"):
        try:
            e2 = mod.e2(run, programs, tier, seed, known)
        except Exception as e:
            run.machinery.append("E2 crashed: %r" % (e,))
            traceback.print_exc()
    built["e2"] = e2
    return finish(run, built, programs, all_h)


def is_whitebox_error(e, programs, regions):
    if e["program"] is None or e["region"] != "harness" or not e["file"]:
        return False
    # find which harness function the line is in
    path = os.path.join(fw.SCRATCH_ROOT, "x")
    prog = next((p for p in programs if p.name == e["program"]), None)
    if prog is None:
        return False
    src, _ = fw.render_program(prog)
    lines = src.split("\n")
    ln = e["line"] - 1
    while ln >= 0:
        m = re.match(r"^// harness (\w+) ", lines[ln])
        if m:
            h = next((h for h in prog.harnesses if h.name == m.group(1)), None)
            return bool(h and h.whitebox)
        ln -= 1
    return False


def evaluate_simple(run, p, h, r):
    """returns True when the harness FAILED with a real (non-unwinding) check and needs counterexample replay"""
    full = r.full
    if r.status == "SUCCESS":
        if r.covers_total != r.covers_sat:
            run.machinery.append("vacuity: harness %s satisfied only %d of %d cover properties" % (
                full, r.covers_sat, r.covers_total))
        elif r.covers_total < h.min_covers:
            run.machinery.append("vacuity: harness %s reports %d cover properties, expected >= %d" % (
                full, r.covers_total, h.min_covers))
        return False
    if r.status in ("TIMEOUT", "ERROR", "UNKNOWN"):
        run.machinery.append("harness %s: %s (no verdict within the cap)" % (full, r.status))
        return False
    # a failed LOOP unwinding assertion means our bound is too small for the current code (machinery); a failed
    # RECURSION unwinding assertion on code that has no recursion on the reference tree is a candidate violation
    # (unbounded recursion) and goes to native replay like any other failed check
    real = [c for c in r.failed_checks if "unwinding assertion" not in c or "recursion unwinding assertion" in c]
    if not real and r.failed_checks:
        run.machinery.append("harness %s: unwinding assertion failed (bound too small for the current code): %s" % (
            full, r.failed_checks[0]))
        return False
    return True


def evaluate_failed(run, p, h, r, known, feats, pb):
    full = r.full
    real = [c for c in r.failed_checks if "unwinding assertion" not in c or "recursion unwinding assertion" in c]
    if h.should_panic:
        replay = fw.native_replay(run.cdir, run.pid, full, [], run.log, features=feats_native(feats))
        test = {"check": "expected a panic, none occurred", "vals": []}
        if fw.reproduces(replay, should_panic=True):
            report(run, p, h, test, replay, known)
        else:
            run.machinery.append("harness %s: Kani saw no panic but the native run panics" % full)
        return
    tests, pout = pb
    # NB: Kani de-duplicates playback tests by their concrete values, so the values of a failing assertion may
    # be printed under a `cover` heading; every distinct value vector is therefore replayed natively.
    tests.sort(key=lambda t: t["check_kind"] == "cover")
    if not tests and h.kind == "witness":
        tests = [{"check_kind": "assertion", "check": (real[0] if real else "failed"), "vals": []}]   # no free variable: nothing to play back
    if not tests:
        run.machinery.append("harness %s FAILED (%s) but no concrete playback values were produced" % (
            full, "; ".join(r.failed_checks[:3])))
        return
    reported = False
    reported_checks = set()
    seen = set()
    for t in tests:
        key = tuple(t["vals"])
        if key in seen:
            continue
        seen.add(key)
        replay = fw.native_replay(run.cdir, run.pid, full, t["vals"], run.log, features=feats_native(feats))
        if fw.reproduces(replay):
            if t["check_kind"] == "cover":
                t = dict(t, check=(real[0] if real else t["check"]))
            ck = t["check"]
            if ck in reported_checks:
                continue
            reported_checks.add(ck)
            report(run, p, h, t, replay, known)
            reported = True
    if not reported:
        run.machinery.append("harness %s: counterexample (%s) does not reproduce natively -> harness/encoding suspected" % (
            full, "; ".join(r.failed_checks[:3])))


def feats_native(feats):
    return tuple(feats)


def report(run, p, h, test, replay, known):
    path = write_replay_file(run, p, h, test, replay)
    rec = {"program": p.name, "harness": h.name, "check": test.get("check", ""), "replay": path,
           "values": [v.hex() for v in test.get("vals", [])], "native": {k: v["outcome"] for k, v in replay.items()}}
    msgs = " ".join(v.get("message", "") for v in replay.values())
    k = match_known(known, run.pid, h.name, (test.get("check", "") or "") + " " + msgs, p.summary or "")
    if k:
        run.known_hits.append((k, rec))
    else:
        run.violations.append(rec)


def finish(run, built, programs, all_h):
    pid = run.pid
    res = run.results
    evaluations = 0
    nontrivial = 0
    solver_s = 0.0
    kani_s = 0.0
    samples = []
    funcs = set()
    kinds = {}
    for p, h in all_h:
        r = res.get("%s::%s" % (p.name, h.name))
        if r is None:
            continue
        evaluations += 1
        solver_s += r.solver_s
        kani_s += r.time_s
        kinds[h.kind] = kinds.get(h.kind, 0) + 1
        for f in h.functions:
            funcs.add(f)
        if h.kind == "symbolic" and r.status == "SUCCESS" and r.covers_total > 0 and r.covers_sat == r.covers_total:
            nontrivial += 1
        if len(samples) < 6 and r.status in ("SUCCESS", "FAILED"):
            samples.append({"program": p.name, "harness": h.name, "desc": h.desc, "bound": h.bound,
                            "verdict": r.status, "covers": "%d/%d" % (r.covers_sat, r.covers_total),
                            "solver_s": round(r.solver_s, 3), "enum": p.summary[:1200]})
    e2 = built.get("e2")
    if e2:
        evaluations += e2.get("queries", 0)
        nontrivial += e2.get("nontrivial", 0)
        solver_s += e2.get("solver_s", 0.0)
        for f in e2.get("functions", []):
            funcs.add(f)
        samples.extend(e2.get("samples", [])[:3])
    for v in run.violations[:3]:
        samples.append({"violation": v})
    cov = {
        "evaluations": evaluations,
        "distinct_nontrivial": nontrivial,
        "rule": "one evaluation = one solver verdict (a Kani/CBMC harness over all its symbolic inputs, or one E2 SMT "
                "VC). distinct_nontrivial counts distinct (program, harness) pairs of kind 'symbolic' whose verdict was "
                "SUCCESS and every kani::cover! witness was satisfied (>=1 cover), plus E2 VCs whose sat-twin was sat; "
                "witness queries (no free variable) and lemmas are not counted.",
        "samples": samples if samples else [{"note": "no harness produced a verdict"}],
        "programs": len(programs),
        "program_roles": {r: sum(1 for p in programs if p.role == r) for r in ("pivot", "random")},
        "harness_kinds": kinds,
        "functions_encoded": sorted(funcs),
        "bounds": built.get("bounds", {}),
        "stubs": built.get("stubs", []),
        "solver_time_s": round(solver_s, 2),
        "kani_verification_time_s": round(kani_s, 2),
        "engine_versions": {"kani": "0.68.0", "cbmc": "6.11.0", "sat": "cadical"},
        "build_violations": [b["program"] for b in run.build_violations],
        "machinery_errors": run.machinery[:20],
        "known_findings_hit": [k.get("what") for k, _ in run.known_hits],
        "e2": ({k: v for k, v in e2.items() if k not in ("samples",)} if e2 else None),
        "whitebox_note": built.get("wb_note"),
        "exhaustive": False,
        "outside_the_claim": built.get("outside", []),
    }
    ev = {
        "property_id": pid, "tier": run.tier, "seed": run.seed, "level": "model_checking",
        "coverage": cov,
        "assumptions": built.get("assumptions", []),
        "wall_s": round(time.time() - run.t0, 1),
        "violations": len(run.violations),
    }
    os.makedirs(os.path.join(VERIF, "evidence"), exist_ok=True)
    with open(os.path.join(VERIF, "evidence", pid + ".json"), "w") as f:
        json.dump(ev, f, indent=1, default=str)
    for k, rec in run.known_hits:
        run.say("KNOWN-FINDING: property=%s %s [%s::%s]" % (pid, k.get("what"), rec["program"], rec["harness"]))
    for v in run.violations:
        run.say("VIOLATION property=%s replay=%s" % (pid, v["replay"]))
        run.say("  program=%s harness=%s check=%s native=%s" % (v["program"], v["harness"], v["check"], v.get("native")))
    for m in run.machinery:
        run.say("MACHINERY: " + m)
    run.say("%s %s: %d programs, %d solver verdicts (%d non-trivial), solver %.1fs, wall %.1fs, violations=%d, machinery=%d" % (
        pid, run.tier, len(programs), evaluations, nontrivial, solver_s, time.time() - run.t0,
        len(run.violations), len(run.machinery)))
    run.cleanup()
    if run.violations:
        return 1
    if run.machinery:
        return 2
    return 0


def replay_file(path):
    body = json.load(open(path))
    pid, tier, seed = body["property"], body["tier"], body["seed"]
    if body.get("build_violation"):
        print("build violation; re-run: ./check %s --tier %s  (the program below must compile)" % (pid, tier))
        print(body.get("program_source"))
        for d in body.get("rustc_diagnostics", []):
            print(d)
        return 0
    if body.get("engine") == "E2":
        print(json.dumps(body, indent=1))
        return 0
    run = Run(pid, tier, seed)
    mod = importlib.import_module("props." + pid.lower())
    built = mod.build(tier, seed)
    programs = built["programs"]
    fw.write_crate(run.cdir, pid, programs, tuple(built.get("features", ("derive",))))
    full = "%s::%s" % (body["program"], body["harness"])
    feats = list(built.get("crate_features", []))
    if any(h.whitebox for p in programs for h in p.harnesses):
        feats.append("whitebox")
    vals = [bytes.fromhex(x) for x in body["concrete_values_hex"]]
    rep = fw.native_replay(run.cdir, pid, full, vals, run.log, features=tuple(feats))
    print(json.dumps(rep, indent=1))
    sp = any(h.should_panic for p in programs for h in p.harnesses if p.name == body["program"] and h.name == body["harness"])
    r = fw.reproduces(rep, should_panic=sp)
    print("REPRODUCES" if r else "DOES NOT REPRODUCE")
    run.cleanup()
    return 1 if r else 0


def main(argv):
    if len(argv) >= 2 and argv[1] == "replay":
        return replay_file(argv[2])
    if len(argv) >= 2 and argv[1] == "selftest":
        import selftest
        return selftest.main()
    pid = argv[1].upper()
    tier = os.environ.get("VERIF_TIER", "quick")
    keep = False
    seed = int(os.environ.get("VERIF_SEED", "0") or 0)
    i = 2
    while i < len(argv):
        if argv[i] == "--tier":
            tier = argv[i + 1]; i += 2
        elif argv[i] == "--seed":
            seed = int(argv[i + 1]); i += 2
        elif argv[i] == "--keep":
            keep = True; i += 1
        else:
            i += 1
    if tier not in ("quick", "thorough"):
        tier = "quick"
    try:
        return run_check(pid, tier, seed, keep)
    except fw.MachineryError as e:
        print("MACHINERY: %s" % e)
        return 2
