"""Engine E2, string skeleton: the MIR of a derived `from_str` (loop-free: a chain of `<str as PartialEq>::eq` /
`str::eq_ignore_ascii_case` tests against constant literals)  ->  SMT-LIB2 over the theory of strings with an
UNBOUNDED input  ->  z3 and cvc5.  Decides, for every input string of any length, that the variant reached (and
whether the payload is the input / the error is f(input)) is the one the reference semantics names.

Whitelisted callees and their documented semantics:
  <str as PartialEq>::eq(s, "lit")                 s = lit
  core::str::<impl str>::eq_ignore_ascii_case(s, "lit")
                                                   |s| = |lit| and for every position the characters are equal or are the
                                                   two cases of the same ASCII letter (code-point formulation; equivalent to
                                                   the byte-wise definition because ASCII case does not change UTF-8 width)
  <&str as Into<T>>::into(s) / From::from(s)        payload "is the input"
  <T as Default>::default(), user fn()              opaque payloads
  user parse_err_fn(s)                              error "is f(input)"
Anything else (s.len(), s.trim(), loops, phf lookups, ...) => Unsupported: not decided by E2.
"""
import re
from mir2smt import Unsupported, parse_mir, split_args, run_solver


def AND(*xs):
    xs = [x for x in xs if x != "true"]
    if any(x == "false" for x in xs):
        return "false"
    if not xs:
        return "true"
    return xs[0] if len(xs) == 1 else "(and %s)" % " ".join(xs)


def OR(*xs):
    xs = [x for x in xs if x != "false"]
    if any(x == "true" for x in xs):
        return "true"
    if not xs:
        return "false"
    return xs[0] if len(xs) == 1 else "(or %s)" % " ".join(xs)


def NOT(x):
    return "false" if x == "true" else "true" if x == "false" else "(not %s)" % x


def smt_str(s):
    out = ['"']
    for ch in s:
        o = ord(ch)
        if ch == '"':
            out.append('""')
        elif 0x20 <= o <= 0x7e and ch != "\\":
            out.append(ch)
        else:
            out.append("\\u{%x}" % o)
    out.append('"')
    return "".join(out)


def rust_lit_value(tok):
    """decode a MIR `const "..."` literal (Rust debug-escaped) to a python string"""
    body = tok[1:-1]
    out, i = [], 0
    while i < len(body):
        c = body[i]
        if c == "\\":
            n = body[i + 1]
            if n == "n":
                out.append("\n"); i += 2
            elif n == "t":
                out.append("\t"); i += 2
            elif n == "r":
                out.append("\r"); i += 2
            elif n == "0":
                out.append("\0"); i += 2
            elif n in "\\\"'":
                out.append(n); i += 2
            elif n == "u":
                j = body.index("}", i)
                out.append(chr(int(body[i + 3:j], 16))); i = j + 1
            elif n == "x":
                out.append(chr(int(body[i + 2:i + 4], 16))); i += 4
            else:
                raise Unsupported("escape in literal " + tok)
        else:
            out.append(c); i += 1
    return "".join(out)


def fold_eq(s, lit):
    """SMT formula for s.eq_ignore_ascii_case(lit) with constant lit"""
    cs = ["(= (str.len %s) %d)" % (s, len(lit))]
    for i, ch in enumerate(lit):
        at = "(str.at %s %d)" % (s, i)
        if ch.isascii() and ch.isalpha():
            cs.append("(or (= %s %s) (= %s %s))" % (at, smt_str(ch.lower()), at, smt_str(ch.upper())))
        else:
            cs.append("(= %s %s)" % (at, smt_str(ch)))
    return AND(*cs)


class StrExec:
    def __init__(self, fn, enum_name, user_fns, input_var="_1", disc=None):
        self.fn = fn
        self.enum = enum_name
        self.user_fns = set(user_fns)
        self.leaves = []          # (cond, outcome)
        self.input_var = input_var
        self.disc = disc          # concrete discriminant of `*self` for &self methods (EnumProperty getters)

    def run(self):
        self.block("bb0", {self.input_var: ("input",)}, "true", 0)
        return self.leaves

    def val(self, env, tok):
        tok = tok.strip()
        m = re.match(r"(?:copy|move|no_retag copy|no_retag move) (.+)$", tok)
        if m:
            p = m.group(1).strip()
            m2 = re.match(r"\(\*(_\d+)\)$", p)
            if m2:
                v = env.get(m2.group(1))
                if isinstance(v, tuple) and v[0] == "ref":
                    return v[1]
                raise Unsupported("deref of " + p)
            if p in env:
                return env[p]
            raise Unsupported("place " + p)
        m = re.match(r'const ("(?:[^"\\]|\\.)*")$', tok)
        if m:
            return ("lit", rust_lit_value(m.group(1)))
        if re.match(r"const %s::(\w+)$" % re.escape(self.enum), tok):
            return ("variant", tok.split("::")[-1], [])
        m = re.match(r"const (-?\d+)_i64$", tok)
        if m:
            return ("i64", int(m.group(1)))
        if tok == "const i64::MAX":
            return ("i64", 2 ** 63 - 1)
        if tok == "const i64::MIN":
            return ("i64", -2 ** 63)
        m = re.match(r"const (true|false)$", tok)
        if m:
            return ("boolc", m.group(1) == "true")
        if re.match(r"const Result::<.*>::Err\(.*VariantNotFound\)$", tok):
            return ("err", ("opaque", "VariantNotFound"))      # a whole-constant error result (enum without enabled variants)
        if tok.startswith("const "):
            return ("opaque", tok)
        raise Unsupported("operand " + tok)

    def block(self, bb, env, cond, depth):
        if depth > 3000:
            raise Unsupported("depth (loop?)")
        env = dict(env)
        for st in self.fn["blocks"][bb]:
            if st == "return;":
                self.leaves.append((cond, env.get("_0")))
                return
            if st == "unreachable;":
                return
            m = re.match(r"goto -> (bb\d+);", st)
            if m:
                return self.block(m.group(1), env, cond, depth + 1)
            m = re.match(r"switchInt\((?:move|copy) (_\d+)\) -> \[(.*)\];", st)
            if m and isinstance(env.get(m.group(1)), tuple) and env[m.group(1)][0] == "int":
                val = env[m.group(1)][1]
                tgt = None
                for t in m.group(2).split(", "):
                    k, b = t.split(": ")
                    if k != "otherwise" and int(k) == val:
                        tgt = b
                if tgt is None:
                    tgt = [t.split(": ")[1] for t in m.group(2).split(", ") if t.startswith("otherwise")][0]
                return self.block(tgt, env, cond, depth + 1)
            m = re.match(r"switchInt\((?:move|copy) (_\d+)\) -> \[0: (bb\d+), otherwise: (bb\d+)\];", st)
            if m:
                v = env.get(m.group(1))
                if not (isinstance(v, tuple) and v[0] == "bool"):
                    raise Unsupported("switchInt on a value that is not a string test: " + st)
                self.block(m.group(2), env, AND(cond, NOT(v[1])), depth + 1)
                self.block(m.group(3), env, AND(cond, v[1]), depth + 1)
                return
            m = re.match(r"(_\d+) = (.+) -> \[return: (bb\d+), unwind (?:continue|unreachable|terminate[^\]]*)\];", st)
            if m and m.group(2).endswith(")"):
                lhs, callexpr, nxt = m.group(1), m.group(2), m.group(3)
                d, k = 0, len(callexpr) - 1
                while k >= 0:
                    if callexpr[k] == ")":
                        d += 1
                    elif callexpr[k] == "(":
                        d -= 1
                        if d == 0:
                            break
                    k -= 1
                callee, args = callexpr[:k].strip(), [self.val(env, a) for a in split_args(callexpr[k + 1:-1])] if callexpr[k + 1:-1].strip() else []
                env[lhs] = self.call(callee, args)
                return self.block(nxt, env, cond, depth + 1)
            m = re.match(r"(_\d+) = (.+);$", st)
            if m:
                env[m.group(1)] = self.rvalue(env, m.group(2).strip())
                continue
            if st.startswith(("StorageLive", "StorageDead", "nop", "FakeRead", "PlaceMention", "AscribeUserType", "Coverage", "drop(")):
                if st.startswith("drop("):
                    m = re.match(r"drop\(.*\) -> \[return: (bb\d+), unwind (?:continue|unreachable|terminate[^\]]*)\];", st)
                    if m:
                        return self.block(m.group(1), env, cond, depth + 1)
                    raise Unsupported("statement " + st)
                continue
            raise Unsupported("statement " + st)
        raise Unsupported("block falls through")

    def call(self, callee, args):
        if callee == "<str as PartialEq>::eq" or callee == "core::str::traits::<impl PartialEq for str>::eq":
            if len(args) == 2 and args[0] == ("input",) and args[1][0] == "lit":
                return ("bool", "(= s %s)" % smt_str(args[1][1]))
            if len(args) == 2 and args[1] == ("input",) and args[0][0] == "lit":
                return ("bool", "(= s %s)" % smt_str(args[0][1]))
            raise Unsupported("str eq on something that is not (input, literal)")
        if callee == "core::str::<impl str>::eq_ignore_ascii_case":
            if len(args) == 2 and args[0] == ("input",) and args[1][0] == "lit":
                return ("bool", fold_eq("s", args[1][1]))
            raise Unsupported("eq_ignore_ascii_case on something that is not (input, literal)")
        if re.match(r"<&str as Into<.*>>::into$", callee) or re.match(r"<.* as From<&str>>::from$", callee):
            if args and args[0] == ("input",):
                return ("from_input",)
            raise Unsupported("conversion of something that is not the input")
        if re.match(r"<.* as Default>::default$", callee):
            return ("default",)
        if re.match(r"<%s(<.*>)? as FromStr>::from_str$" % re.escape(self.enum), callee):
            raise Unsupported("delegation")     # handled by the caller for try_from
        short = callee.split("::")[-1]
        if short in self.user_fns:
            if not args:
                return ("userfn", short)
            if args == [("input",)]:
                return ("userfn_of_input", short)
            return ("userfn_of_other", short)
        raise Unsupported("call " + callee)

    def rvalue(self, env, r):
        if r.startswith("&"):
            p = r[1:].strip()
            if p.startswith("mut "):
                raise Unsupported("mutable borrow")
            m = re.match(r"\(\*(_\d+)\)$", p)
            if m:
                v = env.get(m.group(1))
                if isinstance(v, tuple) and v[0] == "ref":
                    return v
            if p in env:
                return ("ref", env[p])
            raise Unsupported("borrow of " + p)
        m = re.match(r"%s(?:::<.*?>)?::(\w+)(?:\((.*)\)| \{(.*)\})?$" % re.escape(self.enum), r)
        if m:
            fields = []
            if m.group(2) is not None and m.group(2).strip():
                fields = [self.val(env, a) for a in split_args(m.group(2))]
            elif m.group(3) is not None and m.group(3).strip():
                fields = [self.val(env, a.split(":", 1)[1]) for a in split_args(m.group(3))]
            return ("variant", m.group(1), fields)
        if r == "discriminant((*_1))" and self.disc is not None:
            return ("int", self.disc)
        m = re.match(r"Option::<.*>::None$", r)
        if m:
            return ("none",)
        m = re.match(r"Option::<.*>::Some\((.+)\)$", r)
        if m:
            return ("some", self.val(env, m.group(1)))
        m = re.match(r"Result::<.*>::Ok\((.+)\)$", r)
        if m:
            return ("ok", self.val(env, m.group(1)))
        m = re.match(r"Result::<.*>::Err\((.+)\)$", r)
        if m:
            return ("err", self.val(env, m.group(1)))
        m = re.match(r"(?:strum::)?ParseError::VariantNotFound$", r)
        if m:
            return ("opaque", "VariantNotFound")
        if r.startswith(("copy ", "move ", "const ", "no_retag ")):
            return self.val(env, r)
        raise Unsupported("rvalue " + r)


def find_from_str(fns, enum_name):
    c = [f for f in fns if f["short"] == "from_str" and re.match(r"Result<%s(<.*>)?, " % re.escape(enum_name), f["ret"].strip())]
    if len(c) != 1:
        raise Unsupported("cannot find from_str of %s (%d candidates)" % (enum_name, len(c)))
    return c[0]


def solve_str(script):
    full = "(set-logic ALL)\n(declare-const s String)\n" + script + "\n(check-sat)\n"
    z, zout, zt = run_solver(["/usr/bin/z3", "-in", "-T:60"], full, timeout=90)
    c, cout, ct = run_solver(["cvc5", "--lang", "smt2", "--strings-exp", "--tlimit=60000"], full, timeout=90)
    if z not in ("sat", "unsat") or c not in ("sat", "unsat"):
        # one solver giving up on a string query is tolerated when the other one decides it; both failing is not
        good = [x for x in (z, c) if x in ("sat", "unsat")]
        if len(good) == 1:
            return good[0], zt + ct, "z3=%s cvc5=%s (single-solver verdict)" % (z, c)
        return "inconclusive", zt + ct, "z3=%s cvc5=%s" % (z, c)
    if z != c:
        return "inconclusive", zt + ct, "solver disagreement z3=%s cvc5=%s" % (z, c)
    return z, zt + ct, "z3=%s cvc5=%s" % (z, c)


def model_string(script):
    full = "(set-logic ALL)\n(set-option :produce-models true)\n(declare-const s String)\n" + script + "\n(check-sat)\n(get-value (s))\n"
    z, zout, zt = run_solver(["/usr/bin/z3", "-in", "-T:60"], full, timeout=90)
    m = re.search(r'\(\(s "((?:[^"]|"")*)"\)\)', zout)
    if not m:
        return None
    raw = m.group(1).replace('""', '"')
    out = re.sub(r"\\u\{([0-9a-fA-F]+)\}", lambda k: chr(int(k.group(1), 16)), raw)
    out = re.sub(r"\\x([0-9a-fA-F]{2})", lambda k: chr(int(k.group(1), 16)), out)
    return out


def from_str_vcs(fns, spec, spellings_of, is_ci, user_fns, err_fn=None):
    """returns (vcs, functions).  vcs: list of dicts {name, script (must be UNSAT), twin (must be SAT), what}."""
    fn = find_from_str(fns, spec.name)
    leaves = StrExec(fn, spec.name, user_fns).run()
    # reference semantics as SMT
    match = {}
    order = []
    dflt = None
    for v in spec.variants:
        if v.disabled:
            continue
        if v.default:
            dflt = v.ident
            continue
        alts = []
        for sp in spellings_of(v):
            alts.append(fold_eq("s", sp) if is_ci(v) else "(= s %s)" % smt_str(sp))
        match[v.ident] = OR(*alts)
        order.append(v.ident)
    def oracle_is(ident):
        k = order.index(ident)
        return AND(match[ident], *[NOT(match[j]) for j in order[:k]])
    none = AND(*[NOT(match[j]) for j in order]) if order else "true"
    vcs = []
    total = []
    for n, (cond, oc) in enumerate(leaves):
        total.append(cond)
        if oc is None or oc[0] not in ("ok", "err"):
            raise Unsupported("from_str returns something that is not Ok(..)/Err(..)")
        if oc[0] == "ok":
            v = oc[1]
            if not (isinstance(v, tuple) and v[0] == "variant"):
                raise Unsupported("Ok payload is not a variant of the enum")
            ident, fields = v[1], v[2]
            if ident == dflt:
                goal = none
                extra = all(f == ("from_input",) for f in fields) and len(fields) == 1
                what = "Ok(%s(input)) only when no variant claims the input" % ident
                if not extra:
                    goal = "false"
                    what = "default variant %s does not hold the input" % ident
            elif ident in match:
                goal = oracle_is(ident)
                what = "Ok(%s) exactly on its spellings (first match in declaration order)" % ident
                if any(f == ("from_input",) for f in fields):
                    goal = "false"
                    what = "payload of %s is the input instead of a default" % ident
            else:
                goal = "false"
                what = "a disabled / unknown variant %s is produced" % ident
        else:
            e = oc[1]
            goal = none if dflt is None else "false"
            what = "Err only when no variant claims the input"
            if err_fn is not None:
                if e != ("userfn_of_input", err_fn):
                    goal = "false"
                    what = "the error is not %s(input)" % err_fn
                else:
                    what = "Err(%s(input)) only when no variant claims the input" % err_fn
        vcs.append({"name": "leaf%d" % n, "what": what, "script": "(assert %s)\n(assert (not %s))" % (cond, goal),
                    "twin": "(assert %s)" % cond})
    # completeness of the case split (every string reaches some leaf)
    vcs.append({"name": "total", "what": "every input reaches a return", "script": "(assert (not %s))" % OR(*total), "twin": "(assert true)"})
    # each enabled variant is reachable through from_str
    for ident in order:
        reach = OR(*[c for c, oc in leaves if oc and oc[0] == "ok" and oc[1][0] == "variant" and oc[1][1] == ident])
        vcs.append({"name": "complete_" + ident, "what": "every spelling of %s that no earlier variant claims parses to it" % ident,
                    "script": "(assert %s)\n(assert (not %s))" % (oracle_is(ident), reach), "twin": "(assert %s)" % oracle_is(ident)})
    return vcs, ["<%s as FromStr>::from_str [MIR]" % spec.name]


def props_vcs(fns, spec, discs, tables):
    """EnumProperty getters: tables[variant ident][ty] = {key: value} for ty in str/int/bool (empty for disabled variants).
    One run per (getter, declared variant) with the discriminant concretised; the key is an UNBOUNDED SMT string."""
    vcs, used = [], []
    for getter, ty, wrap in (("get_str", "str", lambda x: ("lit", x)), ("get_int", "int", lambda x: ("i64", x)), ("get_bool", "bool", lambda x: ("boolc", x))):
        c = [f for f in fns if f["short"] == getter and re.search(r"_1: &%s(<[^>]*>)?, _2: &str" % re.escape(spec.name), f["args"])]
        if len(c) != 1:
            raise Unsupported("cannot find %s of %s" % (getter, spec.name))
        used.append("<%s as EnumProperty>::%s [MIR]" % (spec.name, getter))
        for v, d in zip(spec.variants, discs):
            tbl = tables[v.ident][ty]
            leaves = StrExec(c[0], spec.name, [], input_var="_2", disc=d).run()
            total = []
            for n, (cond, oc) in enumerate(leaves):
                total.append(cond)
                if oc is None or oc[0] not in ("some", "none"):
                    raise Unsupported("%s returns something that is not Some(const)/None" % getter)
                if oc[0] == "none":
                    goal = AND(*[NOT("(= s %s)" % smt_str(k)) for k in tbl])
                    what = "%s(%s, key) is None only for undeclared keys" % (getter, v.ident)
                else:
                    goal = OR(*[("(= s %s)" % smt_str(k)) for k, x in tbl.items() if wrap(x) == oc[1]])
                    what = "%s(%s, key) == %r only for the key(s) declared with that value" % (getter, v.ident, oc[1][1])
                vcs.append({"name": "%s_%s_leaf%d" % (getter, v.ident, n), "what": what,
                            "script": "(assert %s)\n(assert (not %s))" % (cond, goal), "twin": "(assert %s)" % cond})
            vcs.append({"name": "%s_%s_total" % (getter, v.ident), "what": "every key reaches a return",
                        "script": "(assert (not %s))" % OR(*total), "twin": "(assert true)"})
            for k, x in tbl.items():
                reach = OR(*[cnd for cnd, oc in leaves if oc and oc[0] == "some" and oc[1] == wrap(x)])
                vcs.append({"name": "%s_%s_has_%s" % (getter, v.ident, k), "what": "declared key %r of %s returns its value" % (k, v.ident),
                            "script": "(assert (= s %s))\n(assert (not %s))" % (smt_str(k), reach), "twin": "(assert (= s %s))" % smt_str(k)})
    return vcs, used


def validate_pairs(fns, spec, user_fns, pairs):
    """translator validation: concrete (input, expected outcome) pairs taken from the repository's own tests are pushed
    through the ENCODING (not through strum): expected = variant ident | ("default", ident) | None (error).
    Returns a list of (input, expected, verdict) where verdict 'unsat' means the encoding maps the input as the test asserts."""
    fn = find_from_str(fns, spec.name)
    leaves = StrExec(fn, spec.name, user_fns).run()
    out = []
    for inp, exp in pairs:
        def ok(oc):
            if exp is None:
                return oc is not None and oc[0] == "err"
            if isinstance(exp, tuple):
                return oc is not None and oc[0] == "ok" and oc[1][0] == "variant" and oc[1][1] == exp[1] and oc[1][2] == [("from_input",)]
            return oc is not None and oc[0] == "ok" and oc[1][0] == "variant" and oc[1][1] == exp
        reach = OR(*[c for c, oc in leaves if ok(oc)])
        v, secs, detail = solve_str("(assert (= s %s))\n(assert (not %s))" % (smt_str(inp), reach))
        out.append((inp, exp, v))
    return out
