"""Engine E2 for C06: the MIR of a derived `from_repr` (a chain of `d == <Variant>_DISCRIMINANT` tests) and of the
per-variant constants strum generates inside it (`= explicit expr | previous constant + 1 | 0`)  ->  bit-vector VCs.

The constants are evaluated from THEIR MIR bodies with the wrap/overflow semantics of the repr type (this is the
part of strum that numbers the variants); `d` is a symbolic bit-vector of the repr type's width; the VCs say that for
every `d` the variant reached is the enabled variant whose rustc discriminant (refsem, over all declared variants) is
`d`, and None otherwise.  Unknown MIR => Unsupported (not decided by E2)."""
import re
from mir2smt import Unsupported, split_args, run_solver

BITS = {"u8": 8, "i8": 8, "u16": 16, "i16": 16, "u32": 32, "i32": 32, "u64": 64, "i64": 64, "usize": 64, "isize": 64}

ITEM_RE = re.compile(r"^(fn|const) (.+?)(?:\((.*?)\) -> (.+?)|: (\w+) = (const [^\n]+;|))\s*(\{\n(.*?)^\}|$)", re.S | re.M)
BB_RE = re.compile(r"^    (bb\d+)(?: \(cleanup\))?: \{\n(.*?)^    \}", re.S | re.M)


def parse_items(text):
    """ordered list of ('fn', name, args, ret, blocks) / ('const', name, ty, simple_or_None, blocks)"""
    items = []
    pos = 0
    for m in re.finditer(r"^(fn|const) ", text, re.M):
        pass
    # split on top-level items
    starts = [m.start() for m in re.finditer(r"^(?:fn|const) ", text, re.M)] + [len(text)]
    for a, b in zip(starts, starts[1:]):
        chunk = text[a:b]
        head = chunk.split("\n", 1)[0]
        if head.rstrip().endswith("{"):
            k = chunk.find("\n}\n")          # an item ends at its closing brace; what follows (e.g. `E::V::{constant#0}: ..`) is not part of it
            if k >= 0:
                chunk = chunk[:k + 3]
        else:
            chunk = head + "\n"
        blocks = {}
        for bm in BB_RE.finditer(chunk):
            blocks[bm.group(1)] = [l.strip() for l in bm.group(2).strip().split("\n") if l.strip()]
        if head.startswith("fn "):
            m = re.match(r"fn (.+?)\((.*)\) -> (.+?) \{$", head)
            if m:
                items.append(("fn", m.group(1), m.group(2), m.group(3), blocks))
        else:
            m = re.match(r"const (.+?): (\w+|\[\w+; \d+\]) = (.*)$", head)
            if m:
                rhs = m.group(3).strip()
                simple = rhs[:-1] if rhs.endswith(";") else None
                items.append(("const", m.group(1), m.group(2), simple, blocks))
    return items


def wrap(v, ty):
    b = BITS[ty]
    v &= (1 << b) - 1
    if ty.startswith("i") and v >= 1 << (b - 1):
        v -= 1 << b
    return v


def in_range(v, ty):
    b = BITS[ty]
    return (-(1 << (b - 1)) <= v < (1 << (b - 1))) if ty.startswith("i") else (0 <= v < (1 << b))


class ConstEval:
    def __init__(self, consts, outer=None):
        self.consts = consts          # short name -> (ty, simple, blocks)
        self.outer = outer or {}      # constants visible outside from_repr (a path-less operand names one of these first)
        self.cache = {}
        self.outer_cache = {}

    def lit(self, tok, ty_hint=None):
        tok = tok.strip()
        m = re.match(r"const (-?\d+)_(\w+)$", tok)
        if m:
            return int(m.group(1)), m.group(2)
        m = re.match(r"const (?:core::num::<impl )?(\w+)>?::(MAX|MIN)$", tok)
        if m and m.group(1) in BITS:
            ty = m.group(1)
            b = BITS[ty]
            if ty.startswith("i"):
                return ((1 << (b - 1)) - 1 if m.group(2) == "MAX" else -(1 << (b - 1))), ty
            return ((1 << b) - 1 if m.group(2) == "MAX" else 0), ty
        m = re.match(r"const (true|false)$", tok)
        if m:
            return (1 if m.group(1) == "true" else 0), "bool"
        m = re.match(r"const (.+)$", tok)
        if m:
            short = m.group(1).split("::")[-1]
            if "::" not in m.group(1) and short in self.outer:
                # `const NAME` without a path is an item of the enclosing module, never one of from_repr's own constants
                if short not in self.outer_cache:
                    self.outer_cache[short] = ConstEval(self.outer).value(short)
                return self.outer_cache[short], self.outer[short][0]
            if short in self.consts:
                return self.value(short), self.consts[short][0]
        raise Unsupported("constant operand " + tok)

    def value(self, short):
        if short in self.cache:
            return self.cache[short]
        ty, simple, blocks = self.consts[short]
        if simple is not None:
            v, _ = self.lit(simple)
        else:
            v = self.run(blocks, ty)
        if ty in BITS and not in_range(v, ty):
            raise Unsupported("constant %s out of range" % short)
        self.cache[short] = v
        return v

    def run(self, blocks, ty):
        env = {}
        bb = "bb0"
        for _ in range(200):
            for st in blocks[bb]:
                if st == "return;":
                    return env["_0"][0] if isinstance(env["_0"], tuple) and len(env["_0"]) == 2 and isinstance(env["_0"][1], str) else env["_0"]
                m = re.match(r"assert\(move (_\d+), \"index out of bounds.*\) -> \[success: (bb\d+), unwind continue\];", st)
                if m:
                    c = env[m.group(1)]
                    if not (c[0] if isinstance(c, tuple) else c):
                        raise Unsupported("constant indexes out of bounds at compile time")
                    bb = m.group(2)
                    break
                m = re.match(r"goto -> (bb\d+);", st)
                if m:
                    bb = m.group(1)
                    break
                m = re.match(r"assert\(!move \((_\d+)\.1: bool\), .*\) -> \[success: (bb\d+), unwind continue\];", st)
                if m:
                    if env[m.group(1)][1]:
                        raise Unsupported("constant overflows at compile time")
                    bb = m.group(2)
                    break
                m = re.match(r"assert\(.*\) -> \[success: (bb\d+), unwind continue\];", st)
                if m:       # shift-amount / division asserts: evaluated concretely by the operation below
                    bb = m.group(1)
                    break
                m = re.match(r"(_\d+) = (.+);$", st)
                if m:
                    env[m.group(1)] = self.rvalue(env, m.group(2).strip())
                    continue
                if st.startswith(("StorageLive", "StorageDead", "nop")):
                    continue
                raise Unsupported("const statement " + st)
            else:
                raise Unsupported("const block falls through")
        raise Unsupported("const evaluation does not terminate")

    def operand(self, env, tok):
        tok = tok.strip()
        m = re.match(r"(?:copy|move) \((_\d+)\.(\d): (\w+)\)$", tok)
        if m:
            return env[m.group(1)][int(m.group(2))], (m.group(3) if m.group(3) in BITS else None)
        m = re.match(r"(?:copy|move) (_\d+)$", tok)
        if m:
            v = env[m.group(1)]
            return (v if not isinstance(v, tuple) else v[0]), (v[1] if isinstance(v, tuple) and isinstance(v[1], str) else None)
        return self.lit(tok)

    def rvalue(self, env, r):
        m = re.match(r"(\w+)\((.+)\)$", r)
        if m and m.group(1) in ("Add", "Sub", "Mul", "AddWithOverflow", "SubWithOverflow", "MulWithOverflow", "Shl", "Shr", "ShlUnchecked", "ShrUnchecked",
                                "BitAnd", "BitOr", "BitXor", "Div", "Rem", "Lt", "Le", "Gt", "Ge", "Eq", "Ne"):
            a, b = split_args(m.group(2))
            (x, tx), (y, ty_) = self.operand(env, a), self.operand(env, b)
            ty = tx or ty_
            if ty is None or ty not in BITS:
                raise Unsupported("untyped constant arithmetic " + r)
            op = m.group(1)
            if op in ("Add", "Sub", "Mul"):
                raw = {"Add": x + y, "Sub": x - y, "Mul": x * y}[op]
                return (wrap(raw, ty), ty)
            if op.endswith("WithOverflow"):
                raw = {"Add": x + y, "Sub": x - y, "Mul": x * y}[op[:3]]
                return (wrap(raw, ty), not in_range(raw, ty))
            if op in ("Shl", "ShlUnchecked"):
                if not (0 <= y < BITS[ty]):
                    raise Unsupported("shift amount out of range")
                return (wrap(x << y, ty), ty)
            if op in ("Shr", "ShrUnchecked"):
                if not (0 <= y < BITS[ty]):
                    raise Unsupported("shift amount out of range")
                return (wrap(x >> y, ty) if ty.startswith("i") else wrap((x & ((1 << BITS[ty]) - 1)) >> y, ty), ty)
            if op in ("BitAnd", "BitOr", "BitXor"):
                ux, uy = x & ((1 << BITS[ty]) - 1), y & ((1 << BITS[ty]) - 1)
                return (wrap({"BitAnd": ux & uy, "BitOr": ux | uy, "BitXor": ux ^ uy}[op], ty), ty)
            if op in ("Div", "Rem"):
                if y == 0:
                    raise Unsupported("division by zero in a constant")
                q = abs(x) // abs(y) * (1 if (x >= 0) == (y >= 0) else -1)
                return (wrap(q if op == "Div" else x - q * y, ty), ty)
            return (int({"Lt": x < y, "Le": x <= y, "Gt": x > y, "Ge": x >= y, "Eq": x == y, "Ne": x != y}[op]), "bool")
        m = re.match(r"(Not|Neg)\((.+)\)$", r)
        if m:
            x, ty = self.operand(env, m.group(2))
            if ty is None or ty not in BITS:
                raise Unsupported("untyped unary constant " + r)
            return (wrap(~x if m.group(1) == "Not" else -x, ty), ty)
        m = re.match(r"(.+) as (\w+) \(IntToInt\)$", r)
        if m and m.group(2) in BITS:
            x, _ = self.operand(env, m.group(1))
            return (wrap(x, m.group(2)), m.group(2))
        m = re.match(r"\[(.*)\]$", r)
        if m:               # array aggregate: a python list of element values
            return [self.operand(env, a)[0] for a in split_args(m.group(1))]
        m = re.match(r"(?:copy|move) (_\d+)\[(_\d+)\]$", r)
        if m:
            arr, i = env[m.group(1)], env[m.group(2)]
            ety = None
            if isinstance(arr, tuple):
                mt = re.match(r"\[(\w+); \d+\]$", arr[1] or "")
                ety = mt.group(1) if mt else None
                arr = arr[0]
            i = i[0] if isinstance(i, tuple) else i
            if not isinstance(arr, list) or not (0 <= i < len(arr)):
                raise Unsupported("constant index " + r)
            return (arr[i], ety) if ety else arr[i]
        if r.startswith(("copy ", "move ", "const ")):
            v, ty = self.operand(env, r)
            return (v, ty) if ty else v
        raise Unsupported("const rvalue " + r)


def from_repr_vcs(text, enum_name, repr_ty, variants):
    """variants: list of (ident, disabled, rustc_discriminant).  Returns (vcs, functions, constants)."""
    items = parse_items(text)
    # locate the (first) from_repr of this enum and the constants that follow it
    idx = None
    for i, it in enumerate(items):
        if it[0] == "fn" and it[1].endswith("::from_repr") and re.match(r"Option<%s(<.*>)?>$" % re.escape(enum_name), it[3].strip()):
            idx = i
            break
    if idx is None:
        raise Unsupported("cannot find from_repr of " + enum_name)
    fn = items[idx]
    m = re.match(r"_1: (\w+)$", fn[2].strip())
    if not m or m.group(1) not in BITS:
        raise Unsupported("from_repr parameter type " + fn[2])
    pty = m.group(1)
    if pty != repr_ty:
        raise Unsupported("from_repr takes %s, the discriminant type is %s" % (pty, repr_ty))
    consts = {}
    outer = {}
    in_from_repr = False              # the MIR dump prints a from_repr's own constants right after it, most of them without a path
    for it in items:
        if it[0] == "fn":
            in_from_repr = it[1].endswith("::from_repr")
        if it[0] == "const":
            consts.setdefault(it[1].split("::")[-1], (it[2], it[3], it[4]))
            if "::" not in it[1] and not in_from_repr:
                outer.setdefault(it[1], (it[2], it[3], it[4]))
    # constants belonging to THIS from_repr shadow same-named ones of other enums
    j = idx + 1
    while j < len(items) and not (items[j][0] == "fn" and not items[j][1].endswith("::from_repr")):
        if items[j][0] == "const" and items[j][1].split("::")[-1].endswith(("_DISCRIMINANT", "_DISCRIMINANTS")):
            consts[items[j][1].split("::")[-1]] = (items[j][2], items[j][3], items[j][4])
        j += 1
    ev = ConstEval(consts, outer)
    bits = BITS[pty]
    bvv = lambda v: "(_ bv%d %d)" % (v & ((1 << bits) - 1), bits)
    # symbolic execution of the test chain
    leaves = []

    def block(bb, env, cond, depth):
        if depth > 2000:
            raise Unsupported("depth")
        env = dict(env)
        for st in fn[4][bb]:
            if st == "return;":
                leaves.append((cond, env.get("_0")))
                return
            if st == "unreachable;":
                return
            mm = re.match(r"goto -> (bb\d+);", st)
            if mm:
                return block(mm.group(1), env, cond, depth + 1)
            mm = re.match(r"switchInt\((?:move|copy) (_\d+)\) -> \[0: (bb\d+), otherwise: (bb\d+)\];", st)
            if mm:
                t = env[mm.group(1)]
                if not (isinstance(t, tuple) and t[0] == "bool"):
                    raise Unsupported("switchInt on non-test")
                block(mm.group(2), env, cond + ["(not %s)" % t[1]], depth + 1)
                block(mm.group(3), env, cond + [t[1]], depth + 1)
                return
            mm = re.match(r"(_\d+) = (.+) -> \[return: (bb\d+), unwind (?:continue|unreachable)\];", st)
            if mm:
                if re.match(r"<.* as Default>::default\(\)$", mm.group(2)):
                    env[mm.group(1)] = ("opaque",)
                    return block(mm.group(3), env, cond, depth + 1)
                raise Unsupported("call " + mm.group(2))
            mm = re.match(r"(_\d+) = (.+);$", st)
            if mm:
                r = mm.group(2).strip()
                if r == "&_1":
                    env[mm.group(1)] = ("refd",)
                elif re.match(r"(?:copy|move) \(\*(_\d+)\)$", r) or r in ("copy _1", "move _1"):
                    env[mm.group(1)] = ("d",)
                elif re.match(r"(Eq|Ne)\((.+), (.+)\)$", r):
                    k = re.match(r"(Eq|Ne)\((.+), (.+)\)$", r)
                    a, b = k.group(2).strip(), k.group(3).strip()
                    sa = env.get(re.sub(r"^(copy|move) ", "", a))
                    if sa != ("d",):
                        raise Unsupported("comparison that does not involve the argument: " + r)
                    val, _ = ev.lit(b)
                    t = "(= d %s)" % bvv(val)
                    env[mm.group(1)] = ("bool", t if k.group(1) == "Eq" else "(not %s)" % t)
                elif re.match(r"Option::<.*>::None$", r):
                    env[mm.group(1)] = ("none",)
                elif re.match(r"Option::<.*>::Some\(const %s(?:::<.*?>)?::(\w+)\)$" % re.escape(enum_name), r):
                    env[mm.group(1)] = ("some", ("variant", re.match(r"Option::<.*>::Some\(const %s(?:::<.*?>)?::(\w+)\)$" % re.escape(enum_name), r).group(1)))
                elif re.match(r"Option::<.*>::Some\((?:move|copy) (_\d+)\)$", r):
                    env[mm.group(1)] = ("some", env[re.match(r"Option::<.*>::Some\((?:move|copy) (_\d+)\)$", r).group(1)])
                elif re.match(r"%s(?:::<.*?>)?::(\w+)(?:\(.*\)| \{.*\})?$" % re.escape(enum_name), r):
                    env[mm.group(1)] = ("variant", re.match(r"%s(?:::<.*?>)?::(\w+)" % re.escape(enum_name), r).group(1))
                else:
                    raise Unsupported("rvalue " + r)
                continue
            if st.startswith(("StorageLive", "StorageDead", "nop", "FakeRead")):
                continue
            raise Unsupported("statement " + st)
        raise Unsupported("falls through")

    block("bb0", {}, [], 0)
    disc = {ident: d for ident, dis, d in variants}
    enabled = [(ident, d) for ident, dis, d in variants if not dis]
    conj = lambda cs: "true" if not cs else (cs[0] if len(cs) == 1 else "(and %s)" % " ".join(cs))
    vcs = []
    total = []
    for n, (cond, oc) in enumerate(leaves):
        c = conj(cond)
        total.append(c)
        if oc is None or oc[0] not in ("some", "none"):
            raise Unsupported("from_repr returns something that is not Some(variant)/None")
        if oc[0] == "none":
            goal = conj(["(not (= d %s))" % bvv(d) for _, d in enabled])
            what = "None only when no enabled variant has discriminant d"
        else:
            v = oc[1]
            if not (isinstance(v, tuple) and v[0] == "variant"):
                raise Unsupported("Some payload is not a variant")
            ident = v[1]
            if ident not in disc or ident not in [e for e, _ in enabled]:
                goal, what = "false", "a disabled / unknown variant %s is produced" % ident
            else:
                goal, what = "(= d %s)" % bvv(disc[ident]), "Some(%s) only when d is rustc's discriminant of %s (%d)" % (ident, ident, disc[ident])
        vcs.append({"name": "leaf%d" % n, "what": what, "script": "(assert %s)\n(assert (not %s))" % (c, goal), "twin": "(assert %s)" % c})
    vcs.append({"name": "total", "what": "every d reaches a return", "script": "(assert (not (or %s false)))" % " ".join(total), "twin": "(assert true)"})
    for ident, d in enabled:
        reach = [conj(c) for c, oc in leaves if oc and oc[0] == "some" and oc[1] == ("variant", ident)]
        vcs.append({"name": "has_" + ident, "what": "from_repr(%d) is Some(%s)" % (d, ident),
                    "script": "(assert (= d %s))\n(assert (not (or %s false)))" % (bvv(d), " ".join(reach)), "twin": "(assert (= d %s))" % bvv(d)})
    constants = {k: ev.cache[k] for k in ev.cache if k.endswith("_DISCRIMINANT")}
    return vcs, ["%s::from_repr [MIR]" % enum_name, "%s::from_repr::<Variant>_DISCRIMINANT constants [MIR, %d]" % (enum_name, len(constants))], constants, bits


def solve_bv(script, bits):
    full = "(set-logic ALL)\n(declare-const d (_ BitVec %d))\n%s\n(check-sat)\n" % (bits, script)
    z, zout, zt = run_solver(["/usr/bin/z3", "-in", "-T:60"], full, timeout=90)
    c, cout, ct = run_solver(["cvc5", "--lang", "smt2", "--tlimit=60000"], full, timeout=90)
    if z not in ("sat", "unsat") or c not in ("sat", "unsat") or z != c:
        return "inconclusive", zt + ct, "z3=%s cvc5=%s" % (z, c)
    return z, zt + ct, "z3=%s cvc5=%s" % (z, c)


def model_d(script, bits):
    full = "(set-logic ALL)\n(set-option :produce-models true)\n(declare-const d (_ BitVec %d))\n%s\n(check-sat)\n(get-value (d))\n" % (bits, script)
    z, zout, zt = run_solver(["/usr/bin/z3", "-in", "-T:60"], full, timeout=90)
    m = re.search(r"\(\(d #x([0-9a-fA-F]+)\)\)", zout) or re.search(r"\(\(d #b([01]+)\)\)", zout)
    if not m:
        return None
    return int(m.group(1), 16 if "#x" in m.group(0) else 2)
