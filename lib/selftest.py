"""refsem self-test: the enums and literal expectations of the repository's own integration tests
(strum_tests/tests/*.rs and the case_style unit test), transcribed once into specs; refsem must predict exactly
the literals those tests assert.  A disagreement here is a refsem bug, never a finding.  Pure Python: it does not
build or run /repo."""
import sys
from spec import *
import casing


def U(ident, **kw):
    return Variant(ident=ident, **kw)


FAILS = []
N = [0]


def expect(what, got, want):
    N[0] += 1
    if got != want:
        FAILS.append("%s: refsem says %r, the repository test asserts %r" % (what, got, want))


def parse(spec, s):
    v = parse_oracle(spec, s)
    if v is not None:
        return v.ident
    d = default_variant(spec)
    return ("default:" + d.ident) if d else None


def main():
    # ---- from_str.rs
    color = EnumSpec("Color", [
        U("Red"), U("Blue", fields=[Field("usize", name="hue")], named=True), U("Yellow", serialize=["y", "yellow"]),
        U("Green", fields=[Field("String")], default=True), U("Purple", to_string="purp"),
        U("Black", serialize=["blk", "Black"], aci=True, aci_bare=True),
        U("Pink", fields=[Field("NoDefault", name="test_no_default", default_with="test_default"), Field("String", name="string_test", default_with="string_test")], named=True),
        U("White", fields=[Field("String")], default_with="to_white")])
    for s, want in (("Red", "Red"), ("Blue", "Blue"), ("y", "Yellow"), ("yellow", "Yellow"), ("purp", "Purple"), ("not found", "default:Green"),
                    ("BLK", "Black"), ("bLaCk", "Black"), ("Pink", "Pink"), ("White", "White")):
        expect("from_str.rs Color %r" % s, parse(color, s), want)
    bright = EnumSpec("Brightness", [U("DarkBlack"), U("Dim", fields=[Field("usize", name="glow")], named=True), U("BrightWhite", serialize=["Bright"])],
                      serialize_all="snake_case")
    for s, want in (("dark_black", "DarkBlack"), ("dim", "Dim"), ("Bright", "BrightWhite")):
        expect("from_str.rs Brightness %r" % s, parse(bright, s), want)
    week = EnumSpec("Week", [U(d) for d in ("Sunday", "Monday", "Tuesday", "Wednesday", "Thursday", "Friday", "Saturday")])
    expect("from_str.rs Week Humpday", parse(week, "Humpday"), None)
    for d in ("Sunday", "Saturday"):
        expect("from_str.rs Week " + d, parse(week, d), d)
    ci = EnumSpec("CaseInsensitiveEnum", [U("NoAttr"), U("NoCaseInsensitive", aci=False), U("CaseInsensitive", aci=True)], aci=True)
    for s, want in (("noattr", "NoAttr"), ("NoCaseInsensitive", "NoCaseInsensitive"), ("nocaseinsensitive", None), ("CaseInsensitive", "CaseInsensitive"),
                    ("caseinsensitive", "CaseInsensitive")):
        expect("from_str.rs CaseInsensitiveEnum %r" % s, parse(ci, s), want)
    cust = EnumSpec("CaseCustomParseErrorEnum", [U("Red", serialize=["red"]), U("Blue", serialize=["blue"])])
    expect("from_str.rs custom error: 'yellow' rejected", parse(cust, "yellow"), None)
    expect("from_str.rs Lifetime 'Life'", parse(EnumSpec("Lifetime", [U("Life", fields=[Field("&'a str")]), U("None")]), "Life"), "Life")
    # ---- display.rs / to_string.rs / as_ref_str.rs / prefix.rs : canonical names
    dcolor = EnumSpec("Color", [U("Red", to_string="RedRed"), U("Blue", serialize=["b"], to_string="blue", fields=[Field("usize", name="hue")], named=True),
                                U("Yellow", serialize=["y", "yellow"]), U("Purple", to_string="saturation is {sat}", fields=[Field("usize", name="sat")], named=True),
                                U("Green", fields=[Field("String")], default=True), U("Orange", to_string="Orange({0})", fields=[Field("usize")]),
                                U("Inner", fields=[Field("InnerColor")], transparent=True)])
    names = {v.ident: canonical(dcolor, v) for v in dcolor.variants}
    expect("display.rs Blue", names["Blue"], "blue")
    expect("display.rs Yellow", names["Yellow"], "yellow")
    expect("display.rs Red", names["Red"], "RedRed")
    expect("display.rs Purple has placeholder", has_placeholder(names["Purple"]), True)
    expect("display.rs Orange has placeholder", has_placeholder(names["Orange"]), True)
    expect("as_ref_str.rs Green (default) as_ref", names["Green"], "Green")
    dbright = EnumSpec("Brightness", [U("DarkBlack"), U("Dim", fields=[Field("usize", name="glow")], named=True), U("BrightWhite", serialize=["bright"])],
                       serialize_all="snake_case")
    expect("display.rs Brightness", [canonical(dbright, v) for v in dbright.variants], ["dark_black", "dim", "bright"])
    pre = EnumSpec("Color", [U("Red", to_string="RedRed")], prefix="colour/")
    expect("prefix.rs RedRed", canonical(pre, pre.variants[0]), "colour/RedRed")
    # ---- serialize_all.rs
    for st, ident, want in (("title_case", "DarkBlack", "Dark Black"), ("UPPERCASE", "DarkBlack", "DARKBLACK"), ("camel_case", "CamelCase", "CamelCase"),
                            ("camelCase", "CamelCase", "camelCase")):
        expect("serialize_all.rs %s(%s)" % (st, ident), casing.convert(ident, st), want)
    # ---- case_style.rs unit test
    for st, want in (("camelCase", "testMe"), ("PascalCase", "TestMe"), ("Train-Case", "Test-Me")):
        expect("case_style.rs test_convert_case %s" % st, casing.convert("test_me", st), want)
    for alias, canon in (("camel_case", "PascalCase"), ("snek_case", "snake_case"), ("kebab_case", "kebab-case"), ("shouty_snake_case", "SCREAMING_SNAKE_CASE"),
                         ("shouty_snek_case", "SCREAMING_SNAKE_CASE")):
        expect("case_style.rs alias %s" % alias, casing.STYLE_ALIASES[alias], canon)
    # ---- enum_variant_names.rs
    vn = EnumSpec("Color", [U("Red"), U("Blue", serialize=["b"]), U("Yellow", to_string="y", serialize=["yy"])])
    expect("enum_variant_names.rs simple", [canonical(vn, v) for v in vn.variants], ["Red", "b", "y"])
    vk = EnumSpec("Color", [U("Red"), U("Blue"), U("Yellow"), U("RebeccaPurple")], serialize_all="kebab_case")
    expect("enum_variant_names.rs plain_kebab", [canonical(vk, v) for v in vk.variants], ["red", "blue", "yellow", "rebecca-purple"])
    vc = EnumSpec("Color", [U("DeepPink"), U("GreenYellow"), U("CornflowerBlue"), U("Other", fields=[Field("u8", name="r")], named=True)], serialize_all="kebab_case")
    expect("enum_variant_names.rs non_plain_camel", [canonical(vc, v) for v in vc.variants], ["deep-pink", "green-yellow", "cornflower-blue", "other"])
    # ---- enum_message.rs
    pets = EnumSpec("Pets", [
        U("Dog", message="I'm a dog"),
        U("Cat", docs=[" I eat birds.", "", " And fish."], message="I'm a cat", detailed_message="I'm a very exquisite striped cat"),
        U("Fish", docs=[" I'm a fish."], detailed_message="My fish is named Charles McFish"),
        U("Bird", docs=[" I'm a bird."]),
        U("Hamster", docs=[" This comment is not collected because it is explicitly disabled."], disabled=True)])
    P = {v.ident: v for v in pets.variants}
    det = lambda v: None if v.disabled else (v.detailed_message if v.detailed_message is not None else v.message)
    expect("enum_message.rs Dog message", P["Dog"].message, "I'm a dog")
    expect("enum_message.rs Dog detailed falls back", det(P["Dog"]), "I'm a dog")
    expect("enum_message.rs Cat detailed", det(P["Cat"]), "I'm a very exquisite striped cat")
    expect("enum_message.rs Fish message", P["Fish"].message, None)
    expect("enum_message.rs Cat documentation", doc_text(P["Cat"]), "I eat birds.\n\nAnd fish.\n")
    expect("enum_message.rs Fish documentation", doc_text(P["Fish"]), "I'm a fish.")
    expect("enum_message.rs Dog documentation", doc_text(P["Dog"]), None)
    expect("enum_message.rs Hamster detailed (disabled)", det(P["Hamster"]), None)
    mb = EnumSpec("Brightness", [U("DarkBlack"), U("Dim", fields=[Field("usize", name="glow")], named=True), U("BrightWhite", serialize=["bright"])],
                  serialize_all="kebab_case")
    expect("enum_message.rs get_serializations", [spellings(mb, v) for v in mb.variants], [["dark-black"], ["dim"], ["bright"]])
    # ---- enum_props.rs
    tg = EnumSpec("TestGet", [U("A", props=[[("weight", 42), ("flat", True), ("big", False)]]), U("B", props=[[("weight", -42), ("flat", False)]]), U("C")])
    T = {v.ident: merged_props(v) for v in tg.variants}
    expect("enum_props.rs A flat", T["A"]["bool"].get("flat"), True)
    expect("enum_props.rs B flat", T["B"]["bool"].get("flat"), False)
    expect("enum_props.rs C flat", T["C"]["bool"].get("flat"), None)
    expect("enum_props.rs A get_bool(weight)", T["A"]["bool"].get("weight"), None)
    expect("enum_props.rs A weight", T["A"]["int"].get("weight"), 42)
    expect("enum_props.rs B weight", T["B"]["int"].get("weight"), -42)
    expect("enum_props.rs A get_int(flat)", T["A"]["int"].get("flat"), None)
    t1 = EnumSpec("Test", [U("A", props=[[("key", "value")]]), U("B")])
    expect("enum_props.rs prop_test", merged_props(t1.variants[0])["str"].get("key"), "value")
    expect("enum_props.rs prop_test_not_found_2", merged_props(t1.variants[1])["str"].get("key"), None)
    # ---- from_repr.rs
    fw_ = EnumSpec("Week", [U("Sunday"), U("Monday"), U("Tuesday"), U("Wednesday"), U("Thursday"), U("Friday", disc="4 + 3", disc_val=7),
                            U("Saturday", disc="8", disc_val=8)], repr="u8")
    ds = dict(zip([v.ident for v in fw_.variants], discriminants(fw_)))
    expect("from_repr.rs discriminants", (ds["Sunday"], ds["Monday"], ds["Friday"], ds["Saturday"]), (0, 1, 7, 8))
    expect("from_repr.rs 6 and 9 are no discriminants", (6 in ds.values(), 9 in ds.values()), (False, False))
    # ---- enum_count.rs / enum_iter.rs
    pc = EnumSpec("Pets", [U("Dog"), U("Cat"), U("Fish"), U("Bird"), U("Hamster", disabled=True)])
    expect("enum_count.rs disabled_test COUNT", len(enabled(pc)), 4)
    # ---- enum_is.rs / enum_try_as.rs method names
    for ident, want in (("Unit", "unit"), ("Named0", "named_0"), ("Unnamed2", "unnamed_2"), ("MultiWordName", "multi_word_name")):
        expect("enum_is.rs is_%s" % want, casing.snake_method(ident), want)
    print("refsem self-test: %d expectations transcribed from the repository's tests, %d disagreements" % (N[0], len(FAILS)))
    for f in FAILS:
        print("  SELFTEST-FAIL " + f)
    return 1 if FAILS else 0


if __name__ == "__main__":
    sys.exit(main())
