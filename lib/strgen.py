"""Generators shared by the string-input family (C01, C07, C11, C12, C16, C18)."""
from gen import *
from framework import Harness, Program


def oracle_fn(spec: EnumSpec, fname="oracle"):
    """fn oracle(b: &[u8]) -> Option<usize>: declaration index of the first enabled, non-default variant
    one of whose spellings equals b exactly, or under ASCII folding when the variant is case-insensitive
    (C01 + C12 reference semantics, emitted as literal tables and byte loops - never a call into strum)."""
    lines = ["pub fn %s(b: &[u8]) -> Option<usize> {" % fname]
    for i, v in enumerate(spec.variants):
        if v.disabled or v.default:
            continue
        ci = is_ci(spec, v)
        for sp in spellings(spec, v):
            f = "beq_fold_ascii" if ci else "beq"
            lines.append("    if %s(b, %s) { return Some(%d); }" % (f, rust_bytes(sp.encode()), i))
    lines.append("    None")
    lines.append("}")
    return "\n".join(lines)


def n_for(spec: EnumSpec, extra=1, cap=12, floor=3):
    return max(floor, min(cap, max_spelling_len(spec) + extra))


def default_inner_bytes(spec: EnumSpec, binder="v"):
    """expression giving the inner value's bytes for the default variant"""
    dv = default_variant(spec)
    return dv


def from_str_harness(spec: EnumSpec, N, name="h_from_str", utf8=True, fixed=None, err_kind="strum", check_try_from=True,
                     variant_default_with=None, desc_extra="", kind="symbolic", covers=True):
    """Body of: parse symbolic s, compare with oracle.  err_kind: 'strum' (ParseError::VariantNotFound) | None."""
    E = spec.ty()
    dv = default_variant(spec)
    lines = []
    if fixed is not None:
        lines.append("    let ss = SymStr::<%d>::fixed(%s);" % (N, rust_bytes(fixed)))
    elif utf8:
        lines.append("    let ss = SymStr::<%d>::utf8();" % N)
    else:
        lines.append("    let ss = SymStr::<%d>::ascii();" % N)
    lines.append("    let s: &str = ss.as_str();")
    lines.append("    let r = <%s as core::str::FromStr>::from_str(s);" % E)
    lines.append("    let o = oracle(ss.bytes());")
    ncov = 0
    if covers and fixed is None:
        # only variants with a spelling that fits the bound can be witnessed (N may be capped below a long spelling)
        en = [(i, v) for i, v in enumerate(spec.variants) if not v.disabled and not v.default
              and any(len(sp.encode()) <= N for sp in spellings(spec, v)) and parse_oracle(spec, min(spellings(spec, v), key=lambda x: len(x.encode()))) is v]
        for i, v in en[:2] + en[-1:]:
            lines.append('    vcover!(o == Some(%d), "input is a spelling of %s");' % (i, v.ident))
            ncov += 1
        lines.append('    vcover!(o.is_none() && ss.len > 0, "input matches no variant");')
        ncov += 1
        # a disabled variant's identifier is reachable as an input
        for v in spec.variants:
            if v.disabled:
                sp = spellings(spec, v)[0].encode()
                if len(sp) <= N:
                    lines.append('    vcover!(beq(ss.bytes(), %s) && o.is_none(), "input is the name of disabled variant %s");' % (rust_bytes(sp), v.ident))
                    ncov += 1
                break
    lines.append("    check_parse(&r, o, ss.bytes());")
    if check_try_from:
        lines.append("    let t = <%s as core::convert::TryFrom<&str>>::try_from(s);" % E)
        lines.append("    check_parse(&t, o, ss.bytes());")
    return "\n".join(lines), ncov


def check_parse_fn(spec: EnumSpec, err_ty="strum::ParseError", err_check="*e == strum::ParseError::VariantNotFound", default_inner=None):
    """fn check_parse(r: &Result<E, Err>, o: Option<usize>, input: &[u8])"""
    E = spec.ty()
    dv = default_variant(spec)
    lines = ["pub fn check_parse(r: &Result<%s, %s>, o: Option<usize>, input: &[u8]) {" % (E, err_ty)]
    lines.append("    match (r, o) {")
    lines.append("        (Ok(v), Some(i)) => {")
    lines.append('            assert!(vidx(v) == i, "parsed to a different variant than the one whose spelling matches");')
    lines.append('            assert!(payload_ok(v), "parsed variant payload is not the declared default");')
    lines.append("        }")
    if dv is not None:
        di = spec.variants.index(dv)
        lines.append("        (Ok(v), None) => {")
        lines.append('            assert!(vidx(v) == %d, "unmatched input did not produce the default variant");' % di)
        lines.append("            match v {")
        lines.append('                %s => { assert!(beq(AsRef::<str>::as_ref(inner).as_bytes(), input), "default variant does not hold the input verbatim"); }' % pattern(spec, dv, ["inner"]))
        lines.append("                _ => {}")
        lines.append("            }")
        lines.append("        }")
        lines.append('        (Err(_), _) => { assert!(false, "parse failed although a default variant is declared"); }')
    else:
        lines.append('        (Ok(_), None) => { assert!(false, "input that is no spelling of any enabled variant was accepted"); }')
        lines.append('        (Err(e), None) => { assert!(%s, "wrong error value"); }' % err_check)
        lines.append('        (Err(_), Some(_)) => { assert!(false, "a declared spelling was rejected"); }')
    lines.append("    }")
    lines.append("}")
    return "\n".join(lines)


def witness_inputs(spec: EnumSpec, limit=24, maxlen=16):
    """fixed inputs derived from the program's own spellings (no free variable): every spelling, its case flips, the
    un-cased identifier, names of disabled variants, outer whitespace, one-character edits, Unicode look-alikes"""
    subs = {"k": "\u212a", "K": "\u212a", "s": "\u017f", "S": "\u017f", "i": "\u0131", "I": "\u0130"}
    out = []
    for v in spec.variants:
        for sp in spellings(spec, v) + [v.ident]:
            out += [sp, sp.swapcase(), sp.upper(), sp.lower(), sp.title(), " " + sp, sp + " ", sp + "x", sp[:-1], sp[1:]]
            for i, ch in enumerate(sp):
                if ch in subs:
                    out.append(sp[:i] + subs[ch] + sp[i + 1:])
    out += ["", " ", "\u00e9"]
    seen, res = set(), []
    for x in out:
        if x not in seen and len(x.encode()) <= maxlen:
            seen.add(x)
            res.append(x)
    # keep a spread: spellings first, then the rest round-robin
    return res[:limit] if len(res) <= limit else res[: limit // 2] + res[limit // 2:: max(1, (len(res) - limit // 2) // (limit // 2))][: limit // 2]
