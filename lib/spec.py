"""Enum specifications (the enumerated 'program' dimension), their rendering to
Rust source, and the reference semantics (refsem) that the harness oracles are
generated from.  refsem is written from the property statements only; it never
looks at strum's code or output.
"""
from dataclasses import dataclass, field
from typing import List, Optional, Tuple
import casing


# --------------------------------------------------------------------------- model

@dataclass
class Field:
    ty: str                      # Rust type
    name: Optional[str] = None   # None for tuple fields
    default_with: Optional[str] = None   # field-level #[strum(default_with = "f")] (named fields)
    default_expr: Optional[str] = None   # Rust expr the harness expects (None => Default::default())


@dataclass
class Variant:
    ident: str
    fields: List[Field] = field(default_factory=list)
    named: bool = False                      # named-field variant (only if fields non-empty or braces wanted)
    braces: bool = False                     # `V {}` (named kind with zero fields)
    parens: bool = False                     # `V()` (tuple kind with zero fields)
    disc: Optional[str] = None               # explicit discriminant expression text
    disc_val: Optional[int] = None           # its value
    serialize: List[str] = field(default_factory=list)
    to_string: Optional[str] = None
    disabled: bool = False
    default: bool = False
    transparent: bool = False
    aci: Optional[bool] = None               # variant-level ascii_case_insensitive
    aci_bare: bool = False                   # render as bare keyword instead of `= true`
    default_with: Optional[str] = None       # variant-level (tuple variants)
    message: Optional[str] = None
    detailed_message: Optional[str] = None
    docs: List[str] = field(default_factory=list)        # raw doc lines as written after `///`
    props: List[List[Tuple[str, object]]] = field(default_factory=list)  # groups of (key, py literal)
    raw_attrs: List[str] = field(default_factory=list)   # extra attribute lines, verbatim
    attr_order: Optional[List[str]] = None   # order of serialize/to_string items; default: serialize.. then to_string
    attr_style: str = "joined"               # joined: one #[strum(a, b)] | split: one attribute per item | trailing: #[strum(a, b,)]
    flags_last: bool = False                 # emit the bare flags (disabled/default/transparent) AFTER the key = value items
    docs_interleave: bool = False            # first doc line, then the strum attributes, then the remaining doc lines

    @property
    def kind(self):
        if self.fields:
            return "named" if self.named else "tuple"
        if self.braces:
            return "named"
        if self.parens:
            return "tuple"
        return "unit"


@dataclass
class EnumSpec:
    name: str
    variants: List[Variant]
    derives: List[str] = field(default_factory=list)          # strum derives
    std_derives: List[str] = field(default_factory=lambda: ["Debug", "Clone", "PartialEq"])
    repr: Optional[str] = None
    generics: str = ""            # e.g. "<T: Default + Clone>"
    ty_args: str = ""             # e.g. "<u8>": the instantiation the harness uses
    where: str = ""
    serialize_all: Optional[str] = None
    aci: bool = False
    prefix: Optional[str] = None
    use_phf: bool = False
    parse_err_ty: Optional[str] = None
    parse_err_fn: Optional[str] = None
    const_into_str: bool = False
    raw_attrs: List[str] = field(default_factory=list)        # e.g. strum_discriminants(...)
    vis: str = "pub"
    macro_args: List[tuple] = field(default_factory=list)     # [(name, fragment, tokens)]: the enum is the body of a macro_rules! invoked with these
    macro_replace: bool = False   # replace every occurrence of `tokens` in the rendered definition by `$name` (refsem keeps reading the literal spec)
    subst: dict = field(default_factory=dict)   # type parameter -> concrete type used by the harness
    role: str = "pivot"           # pivot | random
    note: str = ""

    def ty(self):
        return self.name + self.ty_args


# --------------------------------------------------------------------------- refsem

def enabled(spec: EnumSpec):
    return [v for v in spec.variants if not v.disabled]


def spellings(spec: EnumSpec, v: Variant):
    """C01: serialize literals and the to_string literal, else the identifier
    converted by serialize_all."""
    out = list(v.serialize)
    if v.to_string is not None:
        out.append(v.to_string)
    if not out:
        out.append(casing.convert(v.ident, spec.serialize_all))
    return out


def canonical(spec: EnumSpec, v: Variant, with_prefix=True):
    """C03: to_string, else longest serialize, else re-cased identifier; prefix prepended."""
    if v.to_string is not None:
        n = v.to_string
    elif v.serialize:
        best = v.serialize[0]
        for s in v.serialize:
            if len(s.encode()) > len(best.encode()):
                best = s
        # ties: the statement does not say; corpus avoids equal-length candidates.
        n = best
    else:
        n = casing.convert(v.ident, spec.serialize_all)
    if with_prefix and spec.prefix is not None:
        n = spec.prefix + n
    return n


def is_ci(spec: EnumSpec, v: Variant):
    """C12: variant attribute if present, else the enum-level flag."""
    return v.aci if v.aci is not None else spec.aci


def discriminants(spec: EnumSpec):
    """rustc's rule over ALL declared variants: explicit, else previous + 1, first 0."""
    out, prev = [], None
    for v in spec.variants:
        if v.disc is not None:
            assert v.disc_val is not None, "explicit discriminant needs disc_val"
            cur = v.disc_val
        else:
            cur = 0 if prev is None else prev + 1
        out.append(cur)
        prev = cur
    return out


def default_variant(spec: EnumSpec):
    for v in enabled(spec):
        if v.default:
            return v
    return None


def parse_oracle(spec: EnumSpec, s: str):
    """C01 reference parser on a concrete string: returns the Variant or None (default
    variant handled by the caller)."""
    for v in enabled(spec):
        if v.default:
            continue
        for sp in spellings(spec, v):
            if sp == s:
                return v
            if is_ci(spec, v) and fold_ascii(sp) == fold_ascii(s):
                return v
    return None


def fold_ascii(s: str):
    return "".join(chr(ord(c) + 32) if "A" <= c <= "Z" else c for c in s)


def doc_text(v: Variant):
    """C14: one leading space removed per line; single line as is; several lines each
    terminated by a newline; None without docs."""
    if not v.docs:
        return None
    lines = [d[1:] if d.startswith(" ") else d for d in v.docs]
    if len(lines) == 1:
        return lines[0]
    return "".join(l + "\n" for l in lines)


def merged_props(v: Variant):
    """C15: all props(...) groups merged, bucketed by literal type: {'str':{k:v}, 'int':.., 'bool':..}.
    First declaration of a (key,type) wins is not specified; corpus avoids duplicates."""
    out = {"str": {}, "int": {}, "bool": {}}
    for g in v.props:
        for k, val in g:
            if isinstance(val, bool):
                out["bool"][k] = val
            elif isinstance(val, int):
                out["int"][k] = val
            else:
                out["str"][k] = val
    return out


def has_placeholder(name: str):
    t = name.replace("{{", "").replace("}}", "")
    return "{" in t


def max_spelling_len(spec: EnumSpec):
    m = 0
    for v in spec.variants:
        for sp in spellings(spec, v):
            m = max(m, len(sp.encode()))
    return m


# --------------------------------------------------------------------------- rendering

def rust_str(s: str):
    out = ['"']
    for ch in s:
        o = ord(ch)
        if ch == '"':
            out.append('\\"')
        elif ch == "\\":
            out.append("\\\\")
        elif ch == "\n":
            out.append("\\n")
        elif ch == "\t":
            out.append("\\t")
        elif ch == "\r":
            out.append("\\r")
        elif o < 0x20 or o == 0x7f:
            out.append("\\x%02x" % o)
        elif o > 0x7e:
            out.append("\\u{%x}" % o)
        else:
            out.append(ch)
    out.append('"')
    return "".join(out)


def rust_bytes(b: bytes):
    """b"..." literal"""
    out = ['b"']
    for o in b:
        if o == 0x22:
            out.append('\\"')
        elif o == 0x5c:
            out.append("\\\\")
        elif 0x20 <= o <= 0x7e:
            out.append(chr(o))
        else:
            out.append("\\x%02x" % o)
    out.append('"')
    return "".join(out)


def _prop_lit(val):
    if isinstance(val, bool):
        return "true" if val else "false"
    if isinstance(val, int):
        return str(val)
    return rust_str(val)


def variant_attr_items(v: Variant):
    items = []
    ser = [("serialize", s) for s in v.serialize]
    ts = [("to_string", v.to_string)] if v.to_string is not None else []
    seq = ser + ts
    if v.attr_order:
        # attr_order is a permutation of indices into seq
        seq = [seq[i] for i in v.attr_order]
    for k, s in seq:
        items.append("%s = %s" % (k, rust_str(s)))
    flags = []
    if v.disabled:
        flags.append("disabled")
    if v.default:
        flags.append("default")
    if v.transparent:
        flags.append("transparent")
    if not v.flags_last:
        items.extend(flags)
    if v.aci is not None:
        if v.aci and v.aci_bare:
            items.append("ascii_case_insensitive")
        else:
            items.append("ascii_case_insensitive = %s" % ("true" if v.aci else "false"))
    if v.default_with:
        items.append("default_with = %s" % rust_str(v.default_with))
    if v.message is not None:
        items.append("message = %s" % rust_str(v.message))
    if v.detailed_message is not None:
        items.append("detailed_message = %s" % rust_str(v.detailed_message))
    if v.flags_last:
        items.extend(flags)
    return items


def render_variant(v: Variant):
    lines = []
    late_docs = []
    for k, d in enumerate(v.docs):
        if v.docs_interleave and k > 0:
            late_docs.append("    #[doc = %s]" % rust_str(d))
        else:
            lines.append("    #[doc = %s]" % rust_str(d))
    items = variant_attr_items(v)
    if items:
        if v.attr_style == "split":
            for it in items:
                lines.append("    #[strum(%s)]" % it)
        elif v.attr_style == "trailing":
            lines.append("    #[strum(%s,)]" % ", ".join(items))
        else:
            lines.append("    #[strum(%s)]" % ", ".join(items))
    for g in v.props:
        lines.append("    #[strum(props(%s))]" % ", ".join("%s = %s" % (k, _prop_lit(val)) for k, val in g))
    for a in v.raw_attrs:
        lines.append("    " + a)
    lines.extend(late_docs)
    body = v.ident
    if v.kind == "tuple":
        body += "(" + ", ".join(f.ty for f in v.fields) + ")"
    elif v.kind == "named":
        fs = []
        for f in v.fields:
            pre = ('#[strum(default_with = %s)] ' % rust_str(f.default_with)) if f.default_with else ""
            fs.append("%s%s: %s" % (pre, f.name, f.ty))
        body += " { " + ", ".join(fs) + " }"
    if v.disc is not None:
        body += " = " + v.disc
    lines.append("    " + body + ",")
    return "\n".join(lines)


def enum_attr_items(spec: EnumSpec):
    items = []
    if spec.serialize_all is not None:
        items.append("serialize_all = %s" % rust_str(spec.serialize_all))
    if spec.aci:
        items.append("ascii_case_insensitive")
    if spec.prefix is not None:
        items.append("prefix = %s" % rust_str(spec.prefix))
    if spec.use_phf:
        items.append("use_phf")
    if spec.parse_err_ty:
        items.append("parse_err_ty = %s" % spec.parse_err_ty)
    if spec.parse_err_fn:
        items.append("parse_err_fn = %s" % spec.parse_err_fn)
    if spec.const_into_str:
        items.append("const_into_str")
    return items


def render_enum(spec: EnumSpec):
    lines = []
    ders = list(spec.std_derives) + ["strum::" + d for d in spec.derives]
    lines.append("#[derive(%s)]" % ", ".join(ders))
    items = enum_attr_items(spec)
    if items:
        lines.append("#[strum(%s)]" % ", ".join(items))
    for a in spec.raw_attrs:
        lines.append(a)
    if spec.repr:
        lines.append("#[repr(%s)]" % spec.repr)
    head = "%s enum %s%s" % (spec.vis, spec.name, spec.generics)
    if spec.where:
        head += " " + spec.where
    lines.append(head + " {")
    for v in spec.variants:
        lines.append(render_variant(v))
    lines.append("}")
    if spec.macro_args:
        # the definition reaches the derive through macro_rules! fragment substitution ($x:expr arrives as an invisible group)
        pat = ", ".join("$%s:%s" % (n, f) for n, f, _ in spec.macro_args)
        if spec.macro_replace:
            body = "\n".join(lines)
            for n, f, t in spec.macro_args:
                assert t in body, "macro argument %r does not occur in the definition" % t
                body = body.replace(t, "$" + n)
            lines = body.split("\n")
        lines = ["macro_rules! mk_%s {" % spec.name.lower(), "    (%s) => {" % pat] + ["        " + l for l in lines] + \
                ["    };", "}", "mk_%s!(%s);" % (spec.name.lower(), ", ".join(t for _, _, t in spec.macro_args))]
    return "\n".join(lines)


def pattern(spec: EnumSpec, v: Variant, binders=None):
    """Match pattern for variant v; binders: list of names per field or None for wildcard."""
    p = "%s::%s" % (spec.name, v.ident)
    if v.kind == "unit":
        return p
    if v.kind == "tuple":
        if binders is None:
            return p + "(..)"
        return p + "(" + ", ".join(binders) + ")"
    if binders is None:
        return p + " { .. }"
    return p + " { " + ", ".join("%s: %s" % (f.name, b) for f, b in zip(v.fields, binders)) + " }"


def construct(spec: EnumSpec, v: Variant, exprs):
    p = "%s::%s" % (spec.name, v.ident)
    if v.kind == "unit":
        return p
    if v.kind == "tuple":
        return p + "(" + ", ".join(exprs) + ")"
    return p + " { " + ", ".join("%s: %s" % (f.name, e) for f, e in zip(v.fields, exprs)) + " }"


def variant_index_fn(spec: EnumSpec, fname="vidx"):
    """fn vidx(&E) -> usize: declaration index of the value's variant (harness-side, plain match)."""
    arms = []
    for i, v in enumerate(spec.variants):
        arms.append("        %s => %d," % (pattern(spec, v), i))
    if not spec.variants:
        return "pub fn %s(e: &%s) -> usize { match *e {} }" % (fname, spec.ty())
    return "pub fn %s(e: &%s) -> usize {\n    match e {\n%s\n    }\n}" % (fname, spec.ty(), "\n".join(arms))


def summary(spec: EnumSpec):
    return render_enum(spec)
