"""Engine E2: nightly `-Zunpretty=mir` of the macro-generated, loop-free iterator functions  ->  SMT-LIB2
bit-vector verification conditions  ->  z3 (and cvc5, cross-checked).

Supported MIR subset (anything else => Unsupported: E2 answers "not decided", never "pass"):
  * usize/bool locals as (_ BitVec 64)/Bool, field projections of &self / &mut self ((*_1).N)
  * Add Sub Gt Ge Lt Le Eq Ne, AddWithOverflow / SubWithOverflow + assert(!overflow) (a failed assert is a PANIC
    outcome), switchInt, goto, return, unreachable
  * aggregates: Option::Some/None, tuples, enum variants (tracked by variant name), the iterator struct literal
  * calls: functions of the same dump on the same iterator type (inlined), and a whitelist of core callees given
    their documented semantics: usize::{saturating_add, saturating_sub, wrapping_add, wrapping_sub, min, max},
    <T as Default>::default / PhantomData::clone (opaque payloads)
"""
import os, re, subprocess, time

W = 64
MASK = (1 << W) - 1


class Unsupported(Exception):
    pass


# ----------------------------------------------------------------------------- SMT term helpers (strings)

DEFS = []          # (name, sort, term) in definition order; reset per VC group by reset_defs()
_DEF_IDX = {}
_SORT = {"idx": "BV", "back": "BV", "n": "BV"}


def reset_defs():
    del DEFS[:]
    _DEF_IDX.clear()
    for k in list(_SORT):
        if k.startswith("t!"):
            del _SORT[k]


def _top_args(t):
    """split '(op a b c)' into ['op', 'a', 'b', 'c'] at top level"""
    assert t[0] == "(" and t[-1] == ")"
    out, d, cur = [], 0, ""
    for ch in t[1:-1]:
        if ch == "(":
            d += 1
        elif ch == ")":
            d -= 1
        if ch == " " and d == 0:
            if cur:
                out.append(cur)
            cur = ""
        else:
            cur += ch
    if cur:
        out.append(cur)
    return out


def sort_of(t):
    if t in _SORT:
        return _SORT[t]
    if t in ("true", "false"):
        return "Bool"
    if t.startswith("(_ bv") or t.startswith("(bvadd") or t.startswith("(bvsub"):
        return "BV"
    if t.startswith("(ite "):
        return sort_of(_top_args(t)[2])
    return "Bool"


def share(t):
    """name large terms so the script stays linear in the number of MIR statements"""
    if len(t) < 100:
        return t
    if t in _DEF_IDX:
        return _DEF_IDX[t]
    name = "t!%d" % len(DEFS)
    srt = sort_of(t)
    DEFS.append((name, srt, t))
    _DEF_IDX[t] = name
    _SORT[name] = srt
    return name


def defs_text():
    return "".join("(define-fun %s () %s %s)\n" % (n, "(_ BitVec 64)" if s == "BV" else "Bool", t) for n, s, t in DEFS)


def bv(n):
    return "(_ bv%d %d)" % (n & MASK, W)


def ite(c, a, b):
    if a == b:
        return a
    if c == "true":
        return a
    if c == "false":
        return b
    return share("(ite %s %s %s)" % (c, a, b))


def AND(*xs):
    xs = [x for x in xs if x != "true"]
    if any(x == "false" for x in xs):
        return "false"
    if not xs:
        return "true"
    if len(xs) == 1:
        return xs[0]
    return share("(and %s)" % " ".join(xs))


def OR(*xs):
    xs = [x for x in xs if x != "false"]
    if any(x == "true" for x in xs):
        return "true"
    if not xs:
        return "false"
    if len(xs) == 1:
        return xs[0]
    return share("(or %s)" % " ".join(xs))


def NOT(x):
    if x == "true":
        return "false"
    if x == "false":
        return "true"
    return "(not %s)" % x


def IMP(a, b):
    return "(=> %s %s)" % (a, b)


def EQ(a, b):
    return "(= %s %s)" % (a, b)


def op2(o, a, b):
    return share("(%s %s %s)" % (o, a, b))


# ----------------------------------------------------------------------------- MIR parsing

FN_RE = re.compile(r"^fn (.+?)\((.*?)\) -> (.+?) \{\n(.*?)^\}", re.S | re.M)
BB_RE = re.compile(r"^    (bb\d+)(?: \(cleanup\))?: \{\n(.*?)^    \}", re.S | re.M)


def parse_mir(text):
    fns = []
    for m in FN_RE.finditer(text):
        name, args, ret, body = m.groups()
        blocks = {}
        for b in BB_RE.finditer(body):
            blocks[b.group(1)] = [l.strip() for l in b.group(2).strip().split("\n") if l.strip()]
        types = {}
        for lm in re.finditer(r"^\s*let (?:mut )?(_\d+): (.+);$", body, re.M):
            types[lm.group(1)] = lm.group(2).strip()
        for am in re.finditer(r"(_\d+): ([^,]+(?:<[^>]*>)?)", args):
            types[am.group(1)] = am.group(2).strip()
        fns.append({"name": name, "short": name.split("::")[-1], "args": args, "ret": ret, "blocks": blocks, "types": types})
    return fns


def split_args(s):
    out, d, cur = [], 0, ""
    for ch in s:
        if ch in "([{<":
            d += 1
        if ch in ")]}>":
            d -= 1
        if ch == "," and d == 0:
            out.append(cur)
            cur = ""
        else:
            cur += ch
    if cur.strip():
        out.append(cur)
    return [x.strip() for x in out]


# ----------------------------------------------------------------------------- symbolic execution

class Exec:
    def __init__(self, fns, iter_type, variant_tags):
        """iter_type: e.g. 'E4dIter'; variant_tags: dict variant ident -> int tag (enabled order index; disabled >= 1000)"""
        self.fns = fns
        self.iter_type = iter_type
        self.enum_name = iter_type[:-4]
        self.tags = variant_tags
        self.encoded = set()

    def find(self, short, self_kind=None):
        c = [f for f in self.fns if f["short"] == short and re.search(r"_1: &(mut )?%s(<[^>]*>)?[,)]?" % re.escape(self.iter_type), f["args"] + ")")]
        if short == "iter":
            c = [f for f in self.fns if f["short"] == "iter" and re.match(r"%s(<.*>)?$" % re.escape(self.iter_type), f["ret"].strip())]
        if len(c) != 1:
            raise Unsupported("cannot resolve function %s on %s (%d candidates)" % (short, self.iter_type, len(c)))
        return c[0]

    # values: str (bv/bool term) | ('tuple', [..]) | ('opt', some, payload) | ('item', tagterm) | ('iter', idx, back) | ('opaque',) | 'SELFREF'
    def operand(self, env, s):
        s = s.strip()
        m = re.match(r"(?:copy|move) (.+)$", s)
        if m:
            return self.place(env, m.group(1))
        m = re.match(r"const (-?\d+)_(usize|u8|u16|u32|u64|isize|i8|i16|i32|i64)$", s)
        if m:
            return bv(int(m.group(1)))
        m = re.match(r"const (true|false)$", s)
        if m:
            return m.group(1)
        m = re.match(r"const usize::MAX$", s)
        if m:
            return bv(MASK)
        if s.startswith("const PhantomData") or s.startswith("const ZeroSized") or s.startswith("const ()"):
            return ("opaque",)
        m = re.match(r"const %s::(\w+)$" % re.escape(self.enum_name), s)
        if m:
            return ("item", bv(self.tag(m.group(1))))
        raise Unsupported("operand " + s)

    def tag(self, ident):
        if ident not in self.tags:
            raise Unsupported("unknown variant " + ident)
        return self.tags[ident]

    def place(self, env, p):
        p = p.strip()
        m = re.match(r"\(\(\*_1\)\.(\d+): [^)]*\)$", p)
        if m:
            k = "self." + m.group(1)
            if k not in env:
                return ("opaque",)
            return env[k]
        m = re.match(r"\((_\d+)\.(\d+): .*\)$", p)
        if m:
            v = env.get(m.group(1))
            if isinstance(v, tuple) and v[0] == "tuple":
                return v[1][int(m.group(2))]
            raise Unsupported("projection of " + p)
        if p in env:
            return env[p]
        if p == "_1":
            return "SELFREF"
        raise Unsupported("place " + p)

    def assign(self, env, p, v):
        p = p.strip()
        m = re.match(r"\(\(\*_1\)\.(\d+): usize\)$", p)
        if m:
            env["self." + m.group(1)] = v
        elif re.match(r"_\d+$", p):
            env[p] = v
        else:
            raise Unsupported("assignment to " + p)

    def call(self, env, callee, args, pc):
        a = [self.operand(env, x) for x in split_args(args)] if args.strip() else []
        c = callee.strip()
        if c == "core::num::<impl usize>::saturating_add":
            s = op2("bvadd", a[0], a[1])
            return ite(op2("bvult", s, a[0]), bv(MASK), s), "false"
        if c == "core::num::<impl usize>::saturating_sub":
            return ite(op2("bvult", a[0], a[1]), bv(0), op2("bvsub", a[0], a[1])), "false"
        if c == "core::num::<impl usize>::wrapping_add":
            return op2("bvadd", a[0], a[1]), "false"
        if c == "core::num::<impl usize>::wrapping_sub":
            return op2("bvsub", a[0], a[1]), "false"
        if c in ("std::cmp::min::<usize>", "core::cmp::min::<usize>", "<usize as Ord>::min"):
            return ite(op2("bvule", a[0], a[1]), a[0], a[1]), "false"
        if c in ("std::cmp::max::<usize>", "core::cmp::max::<usize>", "<usize as Ord>::max"):
            return ite(op2("bvule", a[0], a[1]), a[1], a[0]), "false"
        if re.match(r"<.* as Default>::default$", c) or re.match(r"<PhantomData<.*> as Clone>::clone$", c):
            return ("opaque",), "false"
        # functions of the same iterator type
        m = re.match(r"(?:<%s(?:<[^>]*>)? as [\w:]+>|%s(?:::<[^>]*>)?(?:<[^>]*>)?)::(\w+)$" % (re.escape(self.iter_type), re.escape(self.iter_type)), c)
        if m and a and a[0] == "SELFREF":
            fn = self.find(m.group(1))
            return self.run_fn(fn, env, a)
        raise Unsupported("call " + c)

    def run_fn(self, fn, outer_env, argvals):
        """returns (ret value, panic condition); updates outer_env's self.* in place"""
        self.encoded.add("%s::%s" % (self.iter_type, fn["short"]))
        env = {k: v for k, v in outer_env.items() if k.startswith("self.")}
        for i, v in enumerate(argvals[1:], start=2):
            env["_%d" % i] = v
        leaves = self.run_block(fn, "bb0", env, "true", 0)
        ok = [(c, e, r) for c, e, r in leaves if r != "PANIC"]
        panic = OR(*[c for c, e, r in leaves if r == "PANIC"])
        if not ok:
            raise Unsupported("function %s always panics" % fn["name"])
        ret = None
        for k in [k for k in outer_env if k.startswith("self.")]:
            t = None
            for c, e, r in ok:
                t = e[k] if t is None else merge(c, e[k], t)
            outer_env[k] = t
        for c, e, r in ok:
            ret = r if ret is None else merge(c, r, ret)
        return ret, panic

    def run_block(self, fn, bb, env, cond, depth):
        if depth > 400:
            raise Unsupported("block depth (loop?)")
        if bb not in fn["blocks"]:
            raise Unsupported("missing block " + bb)
        env = dict(env)
        for st in fn["blocks"][bb]:
            if st == "return;":
                return [(cond, env, env.get("_0", ("opaque",)))]
            if st == "unreachable;":
                return []
            m = re.match(r"goto -> (bb\d+);", st)
            if m:
                return self.run_block(fn, m.group(1), env, cond, depth + 1)
            m = re.match(r"switchInt\((.+?)\) -> \[(.*)\];", st)
            if m:
                v = self.operand(env, m.group(1))
                if not isinstance(v, str):
                    raise Unsupported("switchInt on non-scalar")
                outs, taken = [], []
                vm = re.match(r"(?:copy|move) (_\d+)$", m.group(1).strip())
                if not vm or vm.group(1) not in fn["types"]:
                    raise Unsupported("switchInt operand of unknown type: " + m.group(1))
                is_bool = fn["types"][vm.group(1)] == "bool"
                for tgt in m.group(2).split(", "):
                    k, b = tgt.split(": ")
                    if k == "otherwise":
                        c = AND(*[NOT(t) for t in taken])
                    else:
                        c = (v if k != "0" else NOT(v)) if is_bool else EQ(v, bv(int(k)))
                        taken.append(c)
                    outs += self.run_block(fn, b, env, AND(cond, c), depth + 1)
                return outs
            m = re.match(r"assert\(!move \((_\d+)\.1: bool\), .*\) -> \[success: (bb\d+), unwind continue\];", st)
            if m:
                of = self.place(env, "(%s.1: bool)" % m.group(1))
                return [(AND(cond, of), env, "PANIC")] + self.run_block(fn, m.group(2), env, AND(cond, NOT(of)), depth + 1)
            m = re.match(r"(.+?) = (.+) -> \[return: (bb\d+), unwind (?:continue|unreachable|terminate[^\]]*)\];", st)
            if m and m.group(2).endswith(")"):
                lhs, callexpr, nxt = m.group(1), m.group(2), m.group(3)
                # split `callee(args)` at the parenthesis matching the final one
                d, k = 0, len(callexpr) - 1
                while k >= 0:
                    if callexpr[k] == ")":
                        d += 1
                    elif callexpr[k] == "(":
                        d -= 1
                        if d == 0:
                            break
                    k -= 1
                callee, cargs = callexpr[:k], callexpr[k + 1:-1]
                r, p = self.call(env, callee, cargs, cond)
                self.assign(env, lhs, r)
                outs = []
                if p != "false":
                    outs.append((AND(cond, p), env, "PANIC"))
                    cond = AND(cond, NOT(p))
                return outs + self.run_block(fn, nxt, env, cond, depth + 1)
            m = re.match(r"(.+?) = (.+);$", st)
            if m:
                self.assign(env, m.group(1), self.rvalue(env, m.group(2)))
                continue
            if st.startswith("StorageLive") or st.startswith("StorageDead") or st.startswith("nop") or st.startswith("FakeRead") \
                    or st.startswith("PlaceMention") or st.startswith("AscribeUserType") or st.startswith("Coverage"):
                continue
            raise Unsupported("statement " + st)
        raise Unsupported("block %s falls through" % bb)

    def rvalue(self, env, r):
        r = r.strip()
        m = re.match(r"(Add|Sub|Gt|Ge|Lt|Le|Eq|Ne|AddWithOverflow|SubWithOverflow|AddUnchecked|SubUnchecked)\((.+), (.+)\)$", r)
        if m:
            o, a, b = m.group(1), self.operand(env, m.group(2)), self.operand(env, m.group(3))
            if not (isinstance(a, str) and isinstance(b, str)):
                raise Unsupported("arithmetic on non-scalar")
            if o in ("Add", "AddUnchecked"):
                return op2("bvadd", a, b)
            if o in ("Sub", "SubUnchecked"):
                return op2("bvsub", a, b)
            if o == "Gt":
                return op2("bvugt", a, b)
            if o == "Ge":
                return op2("bvuge", a, b)
            if o == "Lt":
                return op2("bvult", a, b)
            if o == "Le":
                return op2("bvule", a, b)
            if o == "Eq":
                return EQ(a, b)
            if o == "Ne":
                return NOT(EQ(a, b))
            if o == "AddWithOverflow":
                s = op2("bvadd", a, b)
                return ("tuple", [s, op2("bvult", s, a)])
            if o == "SubWithOverflow":
                return ("tuple", [op2("bvsub", a, b), op2("bvult", a, b)])
        m = re.match(r"Option::<.*>::None$", r)
        if m:
            return ("opt", "false", None)
        m = re.match(r"Option::<.*>::Some\((.+)\)$", r)
        if m:
            return ("opt", "true", self.operand(env, m.group(1)))
        m = re.match(r"%s(?:::<.*>)?::(\w+)(?:\(.*\)| \{.*\})?$" % re.escape(self.enum_name), r)
        if m:
            return ("item", bv(self.tag(m.group(1))))
        m = re.match(r"%s(?:::<.*>)? \{ idx: (.+?), back_idx: (.+?), marker: .+ \}$" % re.escape(self.iter_type), r)
        if m:
            return ("iter", self.operand(env, m.group(1)), self.operand(env, m.group(2)))
        m = re.match(r"\((.+)\)$", r)
        if m and not r.startswith("(("):
            parts = split_args(m.group(1))
            if len(parts) >= 2 and all(p.startswith(("copy ", "move ", "const ")) for p in parts):
                return ("tuple", [self.operand(env, p) for p in parts])
        if r == "&(*_1)" or r == "&mut (*_1)":
            return "SELFREF"
        if r.startswith("&"):
            return ("opaque",)
        if r.startswith(("copy ", "move ", "const ")):
            return self.operand(env, r)
        raise Unsupported("rvalue " + r)


def merge(c, a, b):
    if isinstance(a, str) and isinstance(b, str):
        return ite(c, a, b)
    if a is None:
        return b
    if b is None:
        return a
    if isinstance(a, tuple) and isinstance(b, tuple) and a[0] == b[0]:
        if a[0] == "opt":
            return ("opt", ite(c, a[1], b[1]), merge(c, a[2], b[2]))
        if a[0] == "item":
            return ("item", ite(c, a[1], b[1]))
        if a[0] == "tuple":
            return ("tuple", [merge(c, x, y) for x, y in zip(a[1], b[1])])
        if a[0] == "iter":
            return ("iter", ite(c, a[1], b[1]), ite(c, a[2], b[2]))
        if a[0] == "opaque":
            return a
    if a == "SELFREF" and b == "SELFREF":
        return a
    raise Unsupported("cannot merge values of different shape")


# ----------------------------------------------------------------------------- solvers

def run_solver(cmd, script, timeout=120):
    t0 = time.time()
    try:
        p = subprocess.run(cmd, input=script, capture_output=True, text=True, timeout=timeout)
        out = p.stdout + p.stderr
    except subprocess.TimeoutExpired:
        return "timeout", "", time.time() - t0
    first = next((l.strip() for l in out.split("\n") if l.strip()), "")
    if "(error" in out:
        return "error", out, time.time() - t0
    return first, out, time.time() - t0


def solve(script, want_model=False):
    """returns (verdict, model_text, seconds, detail); verdict in sat/unsat/inconclusive"""
    head = "(set-logic ALL)\n(set-option :produce-models true)\n"
    full = head + script + "\n(check-sat)\n"
    z, zout, zt = run_solver(["/usr/bin/z3", "-in", "-T:120"], full)
    c, cout, ct = run_solver(["cvc5", "--lang", "smt2", "--produce-models", "--tlimit=120000"], full)
    if z not in ("sat", "unsat") or c not in ("sat", "unsat"):
        return "inconclusive", zout + cout, zt + ct, "z3=%s cvc5=%s" % (z, c)
    if z != c:
        return "inconclusive", zout + cout, zt + ct, "solver disagreement z3=%s cvc5=%s" % (z, c)
    mt = ""
    if z == "sat" and want_model:
        z2, mt, zt2 = run_solver(["/usr/bin/z3", "-in", "-T:120"], full + "(get-value (idx back n))\n")
        zt += zt2
        if z2 != "sat":
            return "inconclusive", mt, zt + ct, "model extraction failed"
    return z, mt, zt + ct, "z3=%s cvc5=%s" % (z, c)


def model_values(model_text, names):
    vals = {}
    for n in names:
        m = re.search(r"\(%s #x([0-9a-fA-F]+)\)" % re.escape(n), model_text)
        if m:
            vals[n] = int(m.group(1), 16)
            continue
        m = re.search(r"\(define-fun %s \(\) \(_ BitVec 64\)\s+#x([0-9a-fA-F]+)\)" % re.escape(n), model_text)
        if m:
            vals[n] = int(m.group(1), 16)
        else:
            m = re.search(r"\(define-fun %s \(\) \(_ BitVec 64\)\s+#b([01]+)\)" % re.escape(n), model_text)
            if m:
                vals[n] = int(m.group(1), 2)
    return vals


# ----------------------------------------------------------------------------- VCs for the derived iterator (C05)

DECLS = "(declare-const idx (_ BitVec 64))\n(declare-const back (_ BitVec 64))\n(declare-const n (_ BitVec 64))\n"


def iterator_vcs(fns, iter_type, order, disabled, C):
    """yields dicts {name, script (assertions whose conjunction must be UNSAT), twin (must be SAT), functions}"""
    reset_defs()
    tags = {v: i for i, v in enumerate(order)}
    for j, v in enumerate(disabled):
        tags[v] = 1000 + j
    Cc = bv(C)
    inv = lambda i, b: AND(op2("bvule", i, Cc), op2("bvule", b, Cc), OR(op2("bvule", op2("bvadd", i, b), Cc), EQ(i, Cc), EQ(b, Cc)))
    empty = lambda i, b: op2("bvuge", op2("bvadd", i, b), Cc)          # no overflow under inv: both <= C
    rem_of = lambda i, b: ite(empty(i, b), bv(0), op2("bvsub", op2("bvsub", Cc, b), i))
    idx, back, n = "idx", "back", "n"
    lo, hi = idx, op2("bvsub", Cc, back)
    rem = rem_of(idx, back)

    def fresh_exec():
        return Exec(fns, iter_type, tags)

    def post_window_is(env, mlo, mhi, mrem):
        pi, pb = env["self.0"], env["self.1"]
        prem = rem_of(pi, pb)
        return AND(inv(pi, pb), EQ(prem, mrem), IMP(NOT(EQ(mrem, bv(0))), AND(EQ(pi, mlo), EQ(op2("bvsub", Cc, pb), mhi))))

    out = []
    # ---- base
    ex = fresh_exec()
    r, p = ex.run_fn(ex.find("iter"), {}, [])
    if not (isinstance(r, tuple) and r[0] == "iter"):
        raise Unsupported("iter() does not return the iterator struct literal")
    out.append({"name": "base_iter", "goal": AND(NOT(p), EQ(r[1], bv(0)), EQ(r[2], bv(0)), inv(r[1], r[2])), "pre": "true",
                "twin": "true", "functions": sorted(ex.encoded), "op": "iter"})
    # ---- nth(n) and next()
    for opname, narg in (("nth", n), ("next", bv(0))):
        ex = fresh_exec()
        env = {"self.0": idx, "self.1": back}
        args = ["SELFREF", narg] if opname == "nth" else ["SELFREF"]
        ret, panic = ex.run_fn(ex.find(opname), env, args)
        if not (isinstance(ret, tuple) and ret[0] == "opt"):
            raise Unsupported("%s does not return an Option" % opname)
        exp_some = op2("bvult", narg, rem)
        item = ret[2][1] if (ret[2] is not None and ret[2][0] == "item") else None
        if item is None:
            raise Unsupported("%s: returned item is not a variant of the enum" % opname)
        mrem = ite(exp_some, op2("bvsub", op2("bvsub", rem, narg), bv(1)), bv(0))
        mlo = op2("bvadd", op2("bvadd", lo, narg), bv(1))
        goal = AND(NOT(panic), EQ(ret[1], exp_some), IMP(exp_some, EQ(item, op2("bvadd", lo, narg))), post_window_is(env, mlo, hi, mrem))
        out.append({"name": "step_" + opname, "goal": goal, "pre": inv(idx, back), "twin": AND(inv(idx, back), exp_some),
                    "functions": sorted(ex.encoded), "op": opname})
    # ---- next_back()
    ex = fresh_exec()
    env = {"self.0": idx, "self.1": back}
    ret, panic = ex.run_fn(ex.find("next_back"), env, ["SELFREF"])
    if not (isinstance(ret, tuple) and ret[0] == "opt" and ret[2] is not None and ret[2][0] == "item"):
        raise Unsupported("next_back does not return Option<variant>")
    exp_some = NOT(EQ(rem, bv(0)))
    mrem = ite(exp_some, op2("bvsub", rem, bv(1)), bv(0))
    mhi = op2("bvsub", hi, bv(1))
    goal = AND(NOT(panic), EQ(ret[1], exp_some), IMP(exp_some, EQ(ret[2][1], mhi)), post_window_is(env, lo, mhi, mrem))
    out.append({"name": "step_next_back", "goal": goal, "pre": inv(idx, back), "twin": AND(inv(idx, back), exp_some),
                "functions": sorted(ex.encoded), "op": "next_back"})
    # ---- size_hint / len
    ex = fresh_exec()
    env = {"self.0": idx, "self.1": back}
    ret, panic = ex.run_fn(ex.find("size_hint"), env, ["SELFREF"])
    if not (isinstance(ret, tuple) and ret[0] == "tuple" and isinstance(ret[1][1], tuple) and ret[1][1][0] == "opt"):
        raise Unsupported("size_hint shape")
    goal = AND(NOT(panic), EQ(ret[1][0], rem), ret[1][1][1], EQ(ret[1][1][2], rem), EQ(env["self.0"], idx), EQ(env["self.1"], back))
    out.append({"name": "size_hint_exact", "goal": goal, "pre": inv(idx, back), "twin": AND(inv(idx, back), NOT(EQ(rem, bv(0)))),
                "functions": sorted(ex.encoded), "op": "size_hint"})
    ex = fresh_exec()
    env = {"self.0": idx, "self.1": back}
    ret, panic = ex.run_fn(ex.find("len"), env, ["SELFREF"])
    if not isinstance(ret, str):
        raise Unsupported("len shape")
    out.append({"name": "len_exact", "goal": AND(NOT(panic), EQ(ret, rem), EQ(env["self.0"], idx), EQ(env["self.1"], back)), "pre": inv(idx, back),
                "twin": AND(inv(idx, back), NOT(EQ(rem, bv(0)))), "functions": sorted(ex.encoded), "op": "len"})
    # ---- clone
    ex = fresh_exec()
    env = {"self.0": idx, "self.1": back}
    ret, panic = ex.run_fn(ex.find("clone"), env, ["SELFREF"])
    if not (isinstance(ret, tuple) and ret[0] == "iter"):
        raise Unsupported("clone shape")
    goal = AND(NOT(panic), inv(ret[1], ret[2]), EQ(rem_of(ret[1], ret[2]), rem), IMP(NOT(EQ(rem, bv(0))), AND(EQ(ret[1], idx), EQ(ret[2], back))),
               EQ(env["self.0"], idx), EQ(env["self.1"], back))
    out.append({"name": "clone_same_window", "goal": goal, "pre": inv(idx, back), "twin": AND(inv(idx, back), NOT(EQ(rem, bv(0)))),
                "functions": sorted(ex.encoded), "op": "clone"})
    for vc in out:
        vc["script"] = DECLS + defs_text() + "(assert %s)\n(assert (not %s))" % (vc["pre"], vc["goal"])
        vc["twin_script"] = DECLS + defs_text() + "(assert %s)" % vc["twin"]
    return out


def concrete_trace(fns, iter_type, order, disabled, C, ops):
    """translator validation: run a concrete op sequence through the encoding; ops = [(opname, n|None, expected)], expected =
    variant name | None | ('len', k).  Returns list of SMT assertions that must be jointly UNSAT-when-negated, i.e. a goal term."""
    tags = {v: i for i, v in enumerate(order)}
    for j, v in enumerate(disabled):
        tags[v] = 1000 + j
    env = {"self.0": bv(0), "self.1": bv(0)}
    goals = []
    for opname, narg, exp in ops:
        ex = Exec(fns, iter_type, tags)
        args = ["SELFREF"] + ([bv(narg)] if narg is not None else [])
        ret, panic = ex.run_fn(ex.find(opname), env, args)
        goals.append(NOT(panic))
        if opname == "len":
            goals.append(EQ(ret, bv(exp)))
        elif exp is None:
            goals.append(NOT(ret[1]))
        else:
            goals.append(AND(ret[1], EQ(ret[2][1], bv(tags[exp]))))
    return AND(*goals)
