#!/usr/bin/env python3
"""Validate one seeded change and run the matching check against it.

usage: try_mutant.py <out-dir> <cXX> <a|b> [--checks C01,C12]
  1. scratch worktree of /repo HEAD (outside /repo and /verif): demo passes on the clean tree
  2. apply the diff there: existing suite still passes, demo fails
  3. apply the diff to /repo, run ./check <property> (quick), undo with `git checkout -- .`
  4. record everything under /verif/seeded/<cXX>-<x>/ (patch.diff, demo, meta.json)
"""
import json, os, re, shutil, subprocess, sys, time

VERIF = os.path.dirname(os.path.dirname(os.path.abspath(__file__)))
REPO = "/repo"
ENV = dict(os.environ, CARGO_NET_OFFLINE="true", CARGO_TARGET_DIR="/tmp/wt/target-verify")


def sh(cmd, cwd=None, env=None, timeout=3600):
    p = subprocess.run(cmd, cwd=cwd, env=env or ENV, shell=isinstance(cmd, str), capture_output=True, text=True, timeout=timeout)
    return p.returncode, p.stdout + p.stderr


def test_summary(out):
    passed = failed = 0
    for m in re.finditer(r"^test result: \w+\. (\d+) passed; (\d+) failed", out, re.M):
        passed += int(m.group(1))
        failed += int(m.group(2))
    return passed, failed


def main():
    outdir, pid, x = sys.argv[1], sys.argv[2].lower(), sys.argv[3]
    checks = [pid.upper()]
    feat = ""
    if "--features" in sys.argv:
        feat = " --features " + sys.argv[sys.argv.index("--features") + 1]
    if "--checks" in sys.argv:
        checks = sys.argv[sys.argv.index("--checks") + 1].split(",")
    diff = os.path.join(outdir, "%s.diff" % x)
    demo = os.path.join(outdir, "demo_%s_%s.rs" % (pid, x))
    notes = os.path.join(outdir, "%s.md" % x)
    name = "%s-%s" % (pid, x)
    if "--name" in sys.argv:
        name = sys.argv[sys.argv.index("--name") + 1]
    wt = "/tmp/wt/verify-%s" % name
    meta = {"id": name, "property": pid.upper(), "source": "independent sub-agent working in a private worktree with the property text only",
            "ran": [], "at": time.strftime("%Y-%m-%d %H:%M:%S")}
    skip = "--skip-validate" in sys.argv
    if skip:
        # regression re-run of an already validated seed: reuse the stored validation record
        oldm = json.load(open(os.path.join(VERIF, "seeded", name, "meta.json")))
        for k in ("demo_clean", "suite_with_change", "demo_with_change", "valid_seed", "note", "rebased"):
            if k in oldm:
                meta[k] = oldm[k]
        meta["ran"].append("validation reused from the first run of this seed")
    if not skip:
        sh(["git", "-C", REPO, "worktree", "remove", "--force", wt])
        rc, out = sh(["git", "-C", REPO, "worktree", "add", "--detach", wt, "HEAD"])
    try:
      if not skip:
          demo_name = os.path.basename(demo)[:-3]
          shutil.copy(demo, os.path.join(wt, "strum_tests", "tests", os.path.basename(demo)))
          # 1. demo on the clean tree
          rc, out = sh("cargo test -p strum_tests --test %s --offline%s" % (demo_name, feat), cwd=wt)
          p, f = test_summary(out)
          meta["demo_clean"] = {"passed": p, "failed": f, "rc": rc}
          meta["ran"].append("clean tree: cargo test -p strum_tests --test %s --offline -> %d passed, %d failed" % (demo_name, p, f))
          # 2. with the change
          rc, out = sh(["git", "apply", diff], cwd=wt)
          if rc != 0:
              meta["error"] = "diff does not apply: " + out[-500:]
              raise SystemExit(finish(meta, name, diff, demo, notes, ok=False))
          os.remove(os.path.join(wt, "strum_tests", "tests", os.path.basename(demo)))
          rc, out = sh("cargo test --workspace --no-fail-fast --offline", cwd=wt)
          p, f = test_summary(out)
          meta["suite_with_change"] = {"passed": p, "failed": f, "rc": rc}
          meta["ran"].append("changed tree: cargo test --workspace --no-fail-fast --offline -> %d passed, %d failed (rc %d)" % (p, f, rc))
          shutil.copy(demo, os.path.join(wt, "strum_tests", "tests", os.path.basename(demo)))
          rc, out = sh("cargo test -p strum_tests --test %s --offline%s" % (demo_name, feat), cwd=wt)
          p, f = test_summary(out)
          compile_fail = ("error[" in out or "error:" in out) and p + f == 0
          meta["demo_with_change"] = {"passed": p, "failed": f, "rc": rc, "compile_error": compile_fail}
          meta["ran"].append("changed tree: demo -> %d passed, %d failed, rc %d" % (p, f, rc))
          valid = (meta["demo_clean"]["failed"] == 0 and meta["demo_clean"]["passed"] > 0 and meta["demo_clean"]["rc"] == 0
                   and meta["suite_with_change"]["failed"] == 0 and meta["suite_with_change"]["rc"] == 0
                   and (meta["demo_with_change"]["failed"] > 0 or meta["demo_with_change"]["rc"] != 0))
          meta["valid_seed"] = valid
    finally:
        if not skip:
            sh(["git", "-C", REPO, "worktree", "remove", "--force", wt])
    if not meta.get("valid_seed"):
        return finish(meta, name, diff, demo, notes, ok=False)
    # 3. our checks against it
    rc, out = sh(["git", "-C", REPO, "status", "--porcelain"])
    if out.strip():
        meta["error"] = "/repo is not clean; refusing to apply"
        return finish(meta, name, diff, demo, notes, ok=False)
    meta["checks"] = {}
    try:
        rc, out = sh(["git", "-C", REPO, "apply", diff])
        if rc != 0:
            meta["error"] = "diff does not apply to /repo HEAD: " + out[-300:]
            return finish(meta, name, diff, demo, notes, ok=False)
        for c in checks:
            t0 = time.time()
            rc, out = sh([os.path.join(VERIF, "check"), c, "--tier", "quick"], cwd=VERIF, env=dict(os.environ, CARGO_NET_OFFLINE="true"), timeout=7200)
            viol = [l for l in out.split("\n") if l.startswith("VIOLATION")]
            mach = [l for l in out.split("\n") if l.startswith("MACHINERY")]
            meta["checks"][c] = {"exit": rc, "violations": len(viol), "first_violation": (out.split("\n")[out.split("\n").index(viol[0]) + 1].strip() if viol else None),
                                 "machinery": mach[:3], "wall_s": round(time.time() - t0, 1)}
            meta["ran"].append("git -C /repo apply patch.diff; ./check %s --tier quick -> exit %d, %d VIOLATION lines" % (c, rc, len(viol)))
    finally:
        sh(["git", "-C", REPO, "checkout", "--", "."])
    meta["detected"] = any(v["exit"] == 1 and v["violations"] > 0 for v in meta["checks"].values())
    return finish(meta, name, diff, demo, notes, ok=True)


def finish(meta, name, diff, demo, notes, ok):
    d = os.path.join(VERIF, "seeded" if ok else "seeded-rejected", name)
    os.makedirs(d, exist_ok=True)
    old = os.path.join(d, "meta.json")
    hist = []
    if os.path.exists(old):
        try:
            hist = json.load(open(old)).get("history", [])
        except Exception:
            hist = []
    rc, head = sh(["git", "-C", VERIF, "rev-parse", "--short", "HEAD"])
    hist.append({"round": "run at %s, /verif commit %s" % (meta.get("at"), head.strip()), "detected": meta.get("detected"), "checks": meta.get("checks")})
    meta["history"] = hist
    shutil.copy(diff, os.path.join(d, "patch.diff"))
    if os.path.exists(demo):
        shutil.copy(demo, os.path.join(d, os.path.basename(demo)))
    if os.path.exists(notes):
        meta["needs_to_manifest"] = open(notes).read()
    with open(os.path.join(d, "meta.json"), "w") as f:
        json.dump(meta, f, indent=1)
    print(json.dumps({k: meta.get(k) for k in ("id", "valid_seed", "detected", "checks", "error", "demo_clean", "suite_with_change", "demo_with_change")}, indent=1))
    return 0


if __name__ == "__main__":
    sys.exit(main())
