#!/usr/bin/env python3
"""Regenerates /verif/MANIFEST.json from the table below (kept in one place so it stays valid)."""
import json, os, sys

HERE = os.path.dirname(os.path.dirname(os.path.abspath(__file__)))

E1 = "Kani 0.68 / CBMC 6.11 (cadical) bounded model checking of the macro-expanded code: symbolic runtime inputs, oracle generated from independent reference semantics, counterexamples replayed natively"
E2 = "; plus MIR->SMT-LIB2 (z3 4.8.12, cross-checked with cvc5 1.0) verification conditions over the generated functions' MIR in release and dev arithmetic"

CLAIMED = {
    # id: (design_ref, technique, text, note)
}

PENDING_REASON = "check not built yet in this round (planned: Kani/CBMC harness over the generated impls); not claimed until it exists"
NA = {
    "C19": "observable is a rustc build outcome in a no_std / renamed-crate / shadowed-core context; there is no runtime input to make symbolic and the program dimension can only be enumerated, so a solver has nothing to decide (DESIGN.md section 6)",
    "C20": "observable is a rustc diagnostic and 'the macro never panics' is reachability inside syn/proc-macro code on token streams, which Kani/CBMC cannot execute symbolically here (heck alone does not finish); with concrete malformed inputs nothing is left for a solver (DESIGN.md section 6)",
}


def load_table():
    p = os.path.join(HERE, "tools", "claims.json")
    return json.load(open(p))


def main():
    claims = load_table()
    checks = []
    for pid in sorted(claims):
        c = claims[pid]
        checks.append({
            "property_id": pid,
            "quick_cmd": "./check %s --tier quick" % pid,
            "thorough_cmd": "./check %s --tier thorough" % pid,
            "evidence_file": "evidence/%s.json" % pid,
            "replay_cmd_template": "./check replay {path}",
            "engine": c.get("engine", "kani-e1"),
            "level_claimed": {
                "category": "model_checking",
                "text": c["text"],
                "design_ref": c.get("design_ref", "DESIGN.md section 4, " + pid),
            },
            "level_note": c["note"],
            "technique": c.get("technique", E1 + (E2 if c.get("e2") else "")),
        })
    na = []
    allp = [json.loads(l)["id"] for l in open(os.path.join(HERE, "properties.jsonl"))]
    for pid in allp:
        if pid in claims:
            continue
        na.append({"property_id": pid, "reason": NA.get(pid, PENDING_REASON)})
    m = {
        "version": 1,
        "setup_cmd": "./setup.sh",
        "hooks": {
            "guard": "strum_verif",
            "enable": "none needed: the checks use no source hooks (harness crates are path-dependents of /repo/strum and live in the derive's module); the name --cfg strum_verif is reserved",
            "baseline_off_cmd": "cd /repo && cargo test --workspace --no-fail-fast --offline",
            "source_commits": [],
            "add_only": True,
        },
        "engines": [
            {"name": "kani-e1", "path": "lib/framework.py", "serves_properties": sorted(claims),
             "kind_free_text": "generates a harness crate from the enum corpus, expands it with /repo's strum_macros, runs cargo kani (CBMC/cadical) on every harness, replays counterexamples natively (dev+release)"},
            {"name": "mir2smt-e2", "path": "lib/mir2smt.py", "serves_properties": [p for p in sorted(claims) if claims[p].get("e2")],
             "kind_free_text": "translates nightly -Zunpretty=mir of the generated loop-free functions into SMT-LIB2 bit-vector VCs (release wrap + dev overflow-assert semantics), solved by z3 and cvc5"},
        ],
        "checks": checks,
        "not_applicable": na,
        "notes": "Exit codes of ./check: 0 = property held on everything explored; 1 = reproduced violation (VIOLATION line); 2 = machinery could not decide (timeout, vacuity, non-reproducing counterexample) - never reported as success. Genuine defects are recorded in known_findings.json: six `fixed` entries for five defects F1-F5 (each repaired by a fix: commit in the repository; they suppress nothing) and no `open` entry; an `open` entry would be printed as a KNOWN-FINDING line without failing the check.",
    }
    with open(os.path.join(HERE, "MANIFEST.json"), "w") as f:
        json.dump(m, f, indent=1)
    print("MANIFEST.json: %d checks, %d not_applicable" % (len(checks), len(na)))


if __name__ == "__main__":
    main()
