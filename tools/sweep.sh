#!/bin/bash
# tools/sweep.sh <tier> <seed list> [property list]: runs the checks over several seeds on the current tree
# and prints one line per (property, seed): exit code and the summary line.  Used to look for false alarms.
cd "$(dirname "$0")/.."
tier=${1:-quick}; seeds=${2:-"1 2 3"}; props=${3:-"C01 C02 C03 C04 C05 C06 C07 C08 C09 C10 C11 C12 C13 C14 C15 C16 C17 C18"}
for s in $seeds; do for p in $props; do
  out=$(VERIF_SEED=$s ./check $p --tier $tier 2>&1); rc=$?
  echo "seed=$s $p exit=$rc $(echo "$out" | grep -E "^$p (quick|thorough):" | tail -1)"
  [ $rc -ne 0 ] && echo "$out" | grep -E "^(VIOLATION|MACHINERY|  program)" | head -6
done; done
