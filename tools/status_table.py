#!/usr/bin/env python3
"""prints the per-property status rows of DESIGN.md section 10 from the evidence files of the last runs"""
import json, glob, os
HERE = os.path.dirname(os.path.dirname(os.path.abspath(__file__)))
print("| id | tier/seed | programs | verdicts (non-trivial) | E2 queries | wall s | violations |")
print("|---|---|---|---|---|---|---|")
for f in sorted(glob.glob(os.path.join(HERE, "evidence", "C*.json"))):
    e = json.load(open(f))
    c = e["coverage"]
    e2 = (c.get("e2") or {}).get("queries", 0)
    print("| %s | %s/%d | %d | %d (%d) | %d | %.0f | %d |" % (e["property_id"], e["tier"], e["seed"], c.get("programs", 0), c["evaluations"], c["distinct_nontrivial"], e2, e["wall_s"], e.get("violations", 0)))
