// Support module copied verbatim into every generated harness crate.
//
// Harness bodies are ordinary Rust functions.  Under `cfg(kani)` the `nd_*`
// functions are `kani::any()` (solver variables) and `vassume` is
// `kani::assume`; in the native replay binary they read the byte vectors of a
// counterexample (one vector per call, little endian, in call order - the shape
// printed by `--concrete-playback=print`).  So the same assertion code is what
// the solver refutes and what the replay executes against the real build.
#![allow(dead_code, unused_macros, unused_imports)]

#[cfg(kani)]
mod nd {
    pub fn u8() -> u8 { kani::any() }
    pub fn u16() -> u16 { kani::any() }
    pub fn u32() -> u32 { kani::any() }
    pub fn u64() -> u64 { kani::any() }
    pub fn usize() -> usize { kani::any() }
    pub fn i8() -> i8 { kani::any() }
    pub fn i16() -> i16 { kani::any() }
    pub fn i32() -> i32 { kani::any() }
    pub fn i64() -> i64 { kani::any() }
    pub fn isize() -> isize { kani::any() }
    pub fn bool() -> bool { kani::any() }
    pub fn assume(c: bool) { kani::assume(c) }
}

#[cfg(not(kani))]
mod nd {
    use std::cell::RefCell;
    use std::collections::VecDeque;
    thread_local! { pub static Q: RefCell<VecDeque<Vec<u8>>> = RefCell::new(VecDeque::new()); }
    fn take(n: usize) -> [u8; 8] {
        let v = Q.with(|q| q.borrow_mut().pop_front());
        let v = match v {
            Some(v) => v,
            None => { eprintln!("REPLAY: ran out of concrete values"); std::process::exit(78) }
        };
        if v.len() != n { eprintln!("REPLAY: value width mismatch: want {} got {}", n, v.len()); std::process::exit(78) }
        let mut out = [0u8; 8];
        out[..n].copy_from_slice(&v);
        out
    }
    pub fn u8() -> u8 { take(1)[0] }
    pub fn u16() -> u16 { let b = take(2); u16::from_le_bytes([b[0], b[1]]) }
    pub fn u32() -> u32 { let b = take(4); u32::from_le_bytes([b[0], b[1], b[2], b[3]]) }
    pub fn u64() -> u64 { u64::from_le_bytes(take(8)) }
    pub fn usize() -> usize { u64::from_le_bytes(take(8)) as usize }
    pub fn i8() -> i8 { u8() as i8 }
    pub fn i16() -> i16 { u16() as i16 }
    pub fn i32() -> i32 { u32() as i32 }
    pub fn i64() -> i64 { u64() as i64 }
    pub fn isize() -> isize { u64() as isize }
    pub fn bool() -> bool { take(1)[0] != 0 }
    pub fn assume(c: bool) {
        if !c { eprintln!("REPLAY: assumption violated by the concrete values"); std::process::exit(77) }
    }
    pub fn load(vals: Vec<Vec<u8>>) { Q.with(|q| { *q.borrow_mut() = vals.into(); }) }
}

pub fn nd_u8() -> u8 { nd::u8() }
pub fn nd_u16() -> u16 { nd::u16() }
pub fn nd_u32() -> u32 { nd::u32() }
pub fn nd_u64() -> u64 { nd::u64() }
pub fn nd_usize() -> usize { nd::usize() }
pub fn nd_i8() -> i8 { nd::i8() }
pub fn nd_i16() -> i16 { nd::i16() }
pub fn nd_i32() -> i32 { nd::i32() }
pub fn nd_i64() -> i64 { nd::i64() }
pub fn nd_isize() -> isize { nd::isize() }
pub fn nd_bool() -> bool { nd::bool() }
pub fn vassume(c: bool) { nd::assume(c) }
#[cfg(not(kani))]
pub fn replay_load(vals: Vec<Vec<u8>>) { nd::load(vals) }

#[cfg(kani)]
#[macro_export]
macro_rules! vcover { ($c:expr, $m:literal) => { kani::cover!($c, $m) }; }
#[cfg(not(kani))]
#[macro_export]
macro_rules! vcover { ($c:expr, $m:literal) => { { let _ = $c; } }; }

/// N symbolic bytes, one `nd_u8()` each (so playback vectors line up).
pub fn nd_bytes<const N: usize>() -> [u8; N] {
    let mut b = [0u8; N];
    let mut i = 0;
    while i < N { b[i] = nd_u8(); i += 1; }
    b
}

/// Exact RFC 3629 UTF-8 validator (table of Unicode 15, section 3.9, "well-formed
/// UTF-8 byte sequences").  `lemma_valid_utf8` (thorough tier) shows it equal to
/// `core::str::from_utf8(..).is_ok()` for every slice of <= 5 bytes.
pub fn valid_utf8(b: &[u8]) -> bool {
    let n = b.len();
    let mut i = 0;
    while i < n {
        let c = b[i];
        if c < 0x80 { i += 1; continue; }
        let (need, lo, hi) = match c {
            0xC2..=0xDF => (1usize, 0x80u8, 0xBFu8),
            0xE0 => (2, 0xA0, 0xBF),
            0xE1..=0xEC | 0xEE..=0xEF => (2, 0x80, 0xBF),
            0xED => (2, 0x80, 0x9F),
            0xF0 => (3, 0x90, 0xBF),
            0xF1..=0xF3 => (3, 0x80, 0xBF),
            0xF4 => (3, 0x80, 0x8F),
            _ => return false,
        };
        if i + need >= n { return false; }
        if b[i + 1] < lo || b[i + 1] > hi { return false; }
        let mut k = 2;
        while k <= need { if b[i + k] & 0xC0 != 0x80 { return false; } k += 1; }
        i += need + 1;
    }
    true
}

pub fn all_ascii(b: &[u8]) -> bool {
    let mut i = 0;
    while i < b.len() { if b[i] >= 0x80 { return false; } i += 1; }
    true
}

/// A symbolic `&str` of at most N bytes: bytes + length, assumed well-formed.
pub struct SymStr<const N: usize> { pub b: [u8; N], pub len: usize }
impl<const N: usize> SymStr<N> {
    pub fn utf8() -> Self {
        let b = nd_bytes::<N>();
        let len = nd_usize();
        vassume(len <= N);
        vassume(valid_utf8(&b[..len]));
        SymStr { b, len }
    }
    pub fn ascii() -> Self {
        let b = nd_bytes::<N>();
        let len = nd_usize();
        vassume(len <= N);
        vassume(all_ascii(&b[..len]));
        SymStr { b, len }
    }
    pub fn fixed(lit: &[u8]) -> Self {
        let mut b = [0u8; N];
        let mut i = 0;
        while i < lit.len() { b[i] = lit[i]; i += 1; }
        SymStr { b, len: lit.len() }
    }
    pub fn bytes(&self) -> &[u8] { &self.b[..self.len] }
    pub fn as_str(&self) -> &str { unsafe { core::str::from_utf8_unchecked(&self.b[..self.len]) } }
}

/// byte-slice equality as an explicit loop (bounded by the unwind value)
pub fn beq(a: &[u8], b: &[u8]) -> bool {
    if a.len() != b.len() { return false; }
    let mut i = 0;
    while i < a.len() { if a[i] != b[i] { return false; } i += 1; }
    true
}

/// equality after folding ASCII letters only (A-Z -> a-z); every other byte exact
pub fn beq_fold_ascii(a: &[u8], b: &[u8]) -> bool {
    if a.len() != b.len() { return false; }
    let mut i = 0;
    while i < a.len() {
        let (mut x, mut y) = (a[i], b[i]);
        if x >= b'A' && x <= b'Z' { x += 32; }
        if y >= b'A' && y <= b'Z' { y += 32; }
        if x != y { return false; }
        i += 1;
    }
    true
}

/// Fixed-size output capture implementing fmt::Write without allocation.
pub struct Buf<const M: usize> { pub b: [u8; M], pub n: usize, pub overflow: bool }
impl<const M: usize> Buf<M> {
    pub fn new() -> Self { Buf { b: [0u8; M], n: 0, overflow: false } }
    pub fn bytes(&self) -> &[u8] { &self.b[..self.n] }
    pub fn same(&self, o: &Buf<M>) -> bool {
        self.overflow == o.overflow && beq(self.bytes(), o.bytes())
    }
}
impl<const M: usize> core::fmt::Write for Buf<M> {
    fn write_str(&mut self, s: &str) -> core::fmt::Result {
        let sb = s.as_bytes();
        let mut i = 0;
        while i < sb.len() {
            if self.n < M { self.b[self.n] = sb[i]; self.n += 1; } else { self.overflow = true; }
            i += 1;
        }
        Ok(())
    }
}
