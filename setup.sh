#!/bin/bash
# Offline setup: verifies the toolchain the checks need; builds nothing that a check would not rebuild itself.
set -e
export CARGO_NET_OFFLINE=true
cd "$(dirname "$0")"
command -v cargo >/dev/null
cargo kani --version
command -v cbmc >/dev/null && cbmc --version
command -v z3 >/dev/null && z3 --version
command -v cvc5 >/dev/null && cvc5 --version | head -1
rustup toolchain list | grep -q nightly
mkdir -p /var/tmp/strum-verif/cache evidence logs
chmod +x check
echo "setup ok"
